"""C01 - timed move (LT) equals the firmware recurrence. Specs: Stepper, StepperLeap, StepperInd, StepperTrace."""
import os
import subprocess
import time

import steplib as S
import vlib

LEVEL = "model_checking"


def apalache(ctx):
    """E2: the closed forms are an inductive invariant of the tick action for unbounded integers."""
    out = os.path.join(ctx.workdir, "apa")
    res = []
    for args, nm in ((["--init=IndInit", "--inv=IndInv", "--length=1"], "inductive step"),
                     (["--init=Init", "--inv=IndInv", "--length=0"], "base case")):
        t0 = time.time()
        try:
            pr = subprocess.run(["apalache-mc", "check"] + args + ["--out-dir=" + out, os.path.join(vlib.SPEC, "StepperInd.tla")],
                                capture_output=True, text=True, timeout=400, cwd=ctx.workdir)
            ok = "EXITCODE: OK" in pr.stdout and "NoError" in pr.stdout
            bad = "EXITCODE: ERROR" in pr.stdout and "violat" in pr.stdout.lower()
        except subprocess.TimeoutExpired:
            ok, bad = False, False
        res.append({"obligation": nm, "discharged": ok, "wall_s": round(time.time() - t0, 1)})
        if bad:
            raise vlib.MachineryError("Apalache refutes the closed-form invariant (%s): the specification is wrong" % nm)
    subprocess.run(["rm", "-rf", out], check=False)
    ctx.stage("e2.apalache", kind="apalache inductive invariant (unbounded)", obligations=res)
    ctx.notes["apalache_obligations"] = res
    return all(r["discharged"] for r in res)


def g_lt(ctx, ec, em, mp, cfg):
    """G: every full-scale stepped state is a vector for move_dist_lt and the deprecated aliases."""
    events, metas = [], []
    seen = []
    for st in S.stepped_vectors(ctx, "g_full", cfg):
        c = st["cmd"]
        r, a, acc_in, T = c["r"], c["a"], c["c"], st["tick"]
        want = (st["pos"], st["acc"])
        dps = S.DPS_CHOICES[(r + a + T) % len(S.DPS_CHOICES)]
        mp.mp.dps = dps
        got = S.call(ec.move_dist_lt, r, a, T, S.acc_arg(acc_in))
        ctx.count(("G", r, a, acc_in, T))
        if len(seen) < 40000 and (T + r) % 2 == 0:
            seen.append((r, a, T, acc_in, want))
        if got != want:
            ctx.violation("lt.raises" if isinstance(got, S.Raised) else "lt.stepped_state",
                          {"mode": "G", "fn": "move_dist_lt", "rate": r, "accel": a, "T": T, "accum": acc_in, "dps": dps},
                          list(want), list(got) if isinstance(got, tuple) else repr(got))
        # deprecated aliases (moveDistLMA takes the same accumulator argument, "clear" included)
        mp.mp.dps = dps
        g2 = S.call(em.moveDistLMA, r, a, T, S.acc_arg(acc_in))
        if g2 != want:
            ctx.violation("lt.alias_moveDistLMA", {"mode": "G", "fn": "moveDistLMA", "rate": r, "accel": a, "T": T, "accum": acc_in, "dps": dps},
                          list(want), repr(g2))
        if acc_in == 0:
            mp.mp.dps = dps
            g3 = S.call(em.moveDistLM, r, a, T)
            if g3 != want[0]:
                ctx.violation("lt.alias_moveDistLM", {"mode": "G", "fn": "moveDistLM", "rate": r, "accel": a, "T": T, "dps": dps}, want[0], repr(g3))
        if len(events) < 30000 and (T in (1, 2, 3) or (r + a + T) % 7 == 0):
            events.append(S.ev_move("lt", r, a, 0, acc_in, T, want, dps))   # the STEPPED answer, judged by the leap
        if ctx.evaluations % 20011 == 1:
            ctx.sample({"mode": "G", "rate": r, "accel": a, "accum": "clear" if acc_in == S.CLEAR else acc_in, "T": T,
                        "stepped": {"pos": want[0], "acc": want[1]}, "move_dist_lt": list(got)})
    # second pass in the opposite order (long moves first): the answer to a call may not depend on the calls made before it
    prev = None
    for (r, a, T, acc_in, want) in reversed(seen):
        mp.mp.dps = 15
        got = S.call(ec.move_dist_lt, r, a, T, S.acc_arg(acc_in))
        if got != want:
            ctx.violation("lt.stepped_state", {"mode": "G", "fn": "move_dist_lt", "rate": r, "accel": a, "T": T, "accum": acc_in, "dps": 15,
                                               "order": "second pass, reverse order", "prelude": prev}, list(want), repr(got))
            if ctx.enough(30):
                break
        prev = [r, a, T, acc_in]
    # cross-check of the two oracles at full scale: stepped states must satisfy the BigInt closed form
    vs = S.judge(ctx, "g_cross", events)
    off = [(e, v) for e, v in zip(events, vs) if v != "ok"]
    if off:
        raise vlib.MachineryError("full-scale stepped state rejected by StepperLeap (%s): %r" % (off[0][1], off[0][0]))
    ctx.stage("g_cross", kind="oracle cross-check", stepped_states_judged_by_leap=len(events))
    ctx.traces += ctx.evaluations


def draw_lt(rng):
    """one random in-domain (rate, accel, T, acc), T up to 2^32"""
    while True:
        tb = rng.choice([1, 2, 4, 8, 12, 16, 20, 24, 28, 31, 32, 32])
        T = max(1, rng.getrandbits(tb)) if rng.random() < 0.9 else rng.choice([1, 2, 3, 2 ** 32, 2 ** 31, 2 ** 31 - 1])
        r = S.rand_signed(rng)
        k = rng.random()
        if k < 0.15:
            a = 0
        elif k < 0.5:
            # last-tick rate lands in range: |r + aT| <= MM1
            lim = (S.MM1 - abs(r)) // T
            a = S.rand_signed(rng, max(lim, 0)) if lim > 0 else rng.choice([-1, 0, 1])
        else:
            # sweep through zero: rate ends near -r or anywhere in range
            tgt = S.rand_signed(rng)
            a = (tgt - r) // T
        if rng.random() < 0.1:
            # sit on the clear-rule boundary
            r = S.tdiv(a, 2) - a + rng.choice([-1, 0, 1])
        if abs(r) <= S.MM1 and abs(a) <= S.MM1 and S.in_domain(r, a, 0, T):
            return r, a, T, S.rand_acc(rng)


def v_lt(ctx, ec, em, mp, n):
    rng = S.rng_for(ctx, 101)
    events = []
    for _ in range(n):
        r, a, T, c = draw_lt(rng)
        dps = rng.choice(S.DPS_CHOICES)
        mp.mp.dps = dps
        out = S.call(ec.move_dist_lt, r, a, T, S.acc_arg(c))
        events.append(S.ev_move("lt", r, a, 0, c, T, out, dps))
        # the deprecated aliases return the same values, at every scale
        mp.mp.dps = dps
        events.append(S.ev_move("lt", r, a, 0, c, T, S.call(em.moveDistLMA, r, a, T, S.acc_arg(c)), dps, extra={"via": "moveDistLMA"}))
        if c in (0, S.CLEAR):
            mp.mp.dps = dps
            g3 = S.call(em.moveDistLM, r, a, T)       # position only, accumulator 0: judged with the accumulator move_dist_lt reports from 0
            full = out if c == 0 else S.call(ec.move_dist_lt, r, a, T, 0)
            pair = (g3, full[1]) if S.ints(g3) and S.ints(full, 2) else g3
            events.append(S.ev_move("lt", r, a, 0, 0, T, pair, dps, extra={"via": "moveDistLM"}))
    for e in events:
        e.setdefault("via", "move_dist_lt")
    vs = S.judge(ctx, "v", events)
    rej = 0
    for e, v in zip(events, vs):
        if v == "skip":
            ctx.skipped += 1
            continue
        ctx.count(("V", e["r"], e["a"], e["c"], tuple(e["T"]["d"])))
        if v != "ok":
            rej += 1
            if e["via"] != "move_dist_lt":
                v = "lt.alias_" + e["via"]
            ctx.violation(v, {"mode": "V", "fn": e["via"], "rate": e["r"], "accel": e["a"], "T": vlib.from_limbs(e["T"]),
                              "accum": e["c"], "dps": e["dps"]}, "closed form of the recurrence", e["raw"])
    ctx.traces += len(events)
    e0 = events[0]
    ctx.sample({"mode": "V", "rate": e0["r"], "accel": e0["a"], "T": vlib.from_limbs(e0["T"]), "accum": e0["c"], "ambient_dps": e0["dps"],
                "returned": e0["raw"], "verdict": vs[0]})
    ctx.stage("V", kind="code->spec", events=len(events), rejected=rej, max_T=max(vlib.from_limbs(e["T"]) for e in events))


def run(ctx):
    ec, em, mp = S.mods()
    q = ctx.tier == "quick"
    ctx.run_tlc("e1.bigint", "BigIntTest", "BigIntTest_%s.cfg" % ctx.tier)
    ctx.run_tlc("e1.stepper", "StepperMC", "Stepper_small.cfg", coverage=True)
    ctx.run_tlc("e1.leap", "StepperLeapMC", "StepperLeap_lt_quick.cfg" if q else "StepperLeap_thorough.cfg")
    proved = apalache(ctx)
    g_lt(ctx, ec, em, mp, "Stepper_full_lt_%s.cfg" % ctx.tier)
    v_lt(ctx, ec, em, mp, 3000 if q else 150000)
    mp.mp.dps = 15
    ctx.exhaustive = True
    ctx.trusted += ["TLC 1.8", "Apalache 0.58 (closed form = recurrence, unbounded)", "BigInt.tla (validated against native ints at base 4 and against full-scale stepping)",
                    "vlib TLA value parser", "harness limb encoding of Python ints"]
    ctx.assumptions += ["domain: every per-tick |rate| <= 2^31-1; start accumulator in [0,2^31) or clear; in G additionally the adjusted start rate fits 32 bits",
                        "ambient mpmath precision drawn from {1,5,15,30,60} decimal digits before every call",
                        "apalache inductive invariant discharged: %s" % proved]
    return ctx.finish(
        rule="G: every tick state of the firmware machine stepped by TLC at modulus 2^31 from the boundary universe (rates/accels at 0, +-1..3, "
             "+-2^k(+-1), +-(2^31-1), clear-rule boundary start rates, 6 start accumulators incl. clear) is a vector for move_dist_lt/moveDistLMA/moveDistLM; "
             "V: seeded random in-domain calls with T up to 2^32 judged by TLC with the BigInt closed form; distinct = distinct (rate,accel,acc,T)",
        explanation="The statement is 'the library predicts what the Stepper machine does'. TLC checks the machine's invariants and the BigInt closed forms "
                    "against it on a complete small universe, Apalache proves the closed form inductive for unbounded integers, then the real code is compared "
                    "with stepped states at full scale and with the closed form on random calls up to 2^32 ticks, under varying ambient mpmath precision.")


def replay(rec):
    ec, em, mp = S.mods()
    c = rec["case"]
    r, a, T = c["rate"], c["accel"], c["T"]
    if c.get("prelude"):
        pr, pa, pT, pc = c["prelude"]                 # observed after this call had been made
        mp.mp.dps = 15
        S.call(ec.move_dist_lt, pr, pa, pT, S.acc_arg(pc))
    mp.mp.dps = c.get("dps", 15)
    acc = c.get("accum", 0)
    want = S.total_at(r, a, 0, acc, T)
    want = (want // S.M, want % S.M)
    fn = c["fn"]
    if fn == "moveDistLM":
        got = S.call(em.moveDistLM, r, a, T)
        want = (S.total_at(r, a, 0, 0, T)) // S.M
    elif fn == "moveDistLMA":
        got = S.call(em.moveDistLMA, r, a, T, S.acc_arg(acc))
    else:
        got = S.call(ec.move_dist_lt, r, a, T, S.acc_arg(acc))
    # TLC is the judge: re-validate this single event
    ctx = vlib.Ctx("C01", "quick", 0, LEVEL, fresh=False)
    if fn == "moveDistLM":
        ev = S.ev_move("lt", r, a, 0, 0, T, (got, want and S.total_at(r, a, 0, 0, T) % S.M) if S.is_int(got) else got, mp.mp.dps)
    else:
        ev = S.ev_move("lt", r, a, 0, acc, T, got, c.get("dps", 15))
    v = S.judge(ctx, "replay", [ev])[0]
    return v in ("ok", "skip"), {"verdict": v, "returned": repr(got), "closed_form": repr(want)}
