"""C02 - jerk move (T3) equals the third-order firmware recurrence. Specs: Stepper, StepperLeap, StepperInd, StepperTrace."""
import steplib as S
import vlib
import c01

LEVEL = "model_checking"


def call_t3(ec, mp, dps, T, r, a, j, c):
    mp.mp.dps = dps
    return S.call(ec.move_dist_t3, T, r, a, j, S.acc_arg(c))


def g_t3(ctx, ec, mp, cfg):
    events = []
    seen = []
    for st in S.stepped_vectors(ctx, "g_full", cfg):
        c = st["cmd"]
        r, a, j, acc_in, T = c["r"], c["a"], c["j"], c["c"], st["tick"]
        want = (st["pos"], st["acc"])
        if len(seen) < 40000 and (T + r) % 2 == 0:
            seen.append((T, r, a, j, acc_in, want, st["rate"]))
        dps = S.DPS_CHOICES[(r + a + j + T) % len(S.DPS_CHOICES)]
        case = {"mode": "G", "T": T, "rate": r, "accel": a, "jerk": j, "accum": acc_in, "dps": dps}
        got = call_t3(ec, mp, dps, T, r, a, j, acc_in)
        ctx.count(("G", r, a, j, acc_in, T))
        if got != want:
            ctx.violation("t3.raises" if isinstance(got, S.Raised) else "t3.stepped_state", dict(case, fn="move_dist_t3"), list(want), repr(got))
        mp.mp.dps = dps
        gr = S.call(ec.rate_t3, T, r, a, j)
        if gr != st["rate"]:
            ctx.violation("rate.raises" if isinstance(gr, S.Raised) else "rate.end_of_move", dict(case, fn="rate_t3"), st["rate"], repr(gr))
        if j == 0:
            mp.mp.dps = dps
            gl = S.call(ec.move_dist_lt, r, a, T, S.acc_arg(acc_in))
            if gl != got:
                ctx.violation("t3.zero_jerk_is_lt", dict(case, fn="move_dist_t3 vs move_dist_lt"), repr(gl), repr(got))
        if len(events) < 20000 and (T <= 3 or (r + a + T) % 5 == 0):
            events.append(S.ev_move("t3", r, a, j, acc_in, T, want, dps))
            events.append(S.ev_val("rate", r, a, j, T, st["rate"], dps))
        if ctx.evaluations % 9973 == 1:
            ctx.sample({"mode": "G", "T": T, "rate": r, "accel": a, "jerk": j, "accum": "clear" if acc_in == S.CLEAR else acc_in,
                        "stepped": {"pos": want[0], "acc": want[1], "rate": st["rate"]}, "move_dist_t3": repr(got), "rate_t3": repr(gr)})
    prev = None
    for (T, r, a, j, acc_in, want, wrate) in reversed(seen):       # opposite order: no answer may depend on earlier calls
        got = call_t3(ec, mp, 15, T, r, a, j, acc_in)
        gr = S.call(ec.rate_t3, T, r, a, j)
        if got != want or gr != wrate:
            ctx.violation("t3.stepped_state", {"mode": "G", "fn": "move_dist_t3", "T": T, "rate": r, "accel": a, "jerk": j, "accum": acc_in, "dps": 15,
                                               "order": "second pass, reverse order", "prelude": prev}, [list(want), wrate], repr((got, gr)))
            if ctx.enough(30):
                break
        prev = [T, r, a, j, acc_in]
    vs = S.judge(ctx, "g_cross", events)
    off = [(e, v) for e, v in zip(events, vs) if v != "ok"]
    if off:
        raise vlib.MachineryError("full-scale stepped state rejected by StepperLeap (%s): %r" % (off[0][1], off[0][0]))
    ctx.stage("g_cross", kind="oracle cross-check", stepped_states_judged_by_leap=len(events))
    ctx.traces += ctx.evaluations


def draw_t3(rng):
    """one random in-domain (T, rate, accel, jerk, acc)"""
    for _ in range(1000):
        k = rng.random()
        if k < 0.15:
            j = 0
            r, a, T, c = c01.draw_lt(rng)
            return T, r, a, j, c
        tb = rng.choice([1, 2, 3, 4, 6, 8, 10, 12, 14, 16, 17, 18])
        T = max(1, rng.getrandbits(tb))
        # jerk: total contribution j*T^2/2 within range
        jl = max(1, min(S.MM1, 2 * S.MM1 // (T * T)))
        j = S.rand_signed(rng, jl) or rng.choice([-1, 1])
        al = max(1, S.MM1 // T)
        a = S.rand_signed(rng, al)
        if rng.random() < 0.4:
            # turning point inside the move
            tm = rng.randint(1, T)
            a = -j * tm + rng.choice([0, j // 2, -(j // 2), rng.randint(-abs(j), abs(j))])
        r = S.rand_signed(rng)
        if rng.random() < 0.15:
            r = S.tdiv(a, 2) - S.tdiv(j, 6) - a + rng.choice([-1, 0, 1])
            if rng.random() < 0.5:
                j = -a
        if rng.random() < 0.3:
            # push the peak toward the limit
            pk = max(abs(S.rate_at(r, a, j, k2)) for k2 in {1, T, max(1, min(T, (-a) // j if j else 1))})
            if pk < S.MM1:
                r += rng.choice([-1, 1]) * rng.randint(0, S.MM1 - pk)
        if rng.random() < 0.12:
            # pin the first- or last-tick rate to an edge of the signed 32-bit range (incl. -2^31 itself)
            k2 = rng.choice([1, T])
            r += rng.choice([-S.M, -S.M, -S.M + 1, S.MM1, S.MM1 - 1]) - S.rate_at(r, a, j, k2)
        if abs(r) <= S.MM1 and abs(a) <= S.MM1 and abs(j) <= S.MM1 and S.in_domain(r, a, j, T, lo=-S.M):
            return T, r, a, j, S.rand_acc(rng)
    return 1, 0, 0, 0, 0


def v_t3(ctx, ec, mp, n):
    rng = S.rng_for(ctx, 202)
    events, keys = [], []
    for _ in range(n):
        T, r, a, j, c = draw_t3(rng)
        dps = rng.choice(S.DPS_CHOICES)
        out = call_t3(ec, mp, dps, T, r, a, j, c)
        events.append(S.ev_move("t3", r, a, j, c, T, out, dps))
        mp.mp.dps = dps
        events.append(S.ev_val("rate", r, a, j, T, S.call(ec.rate_t3, T, r, a, j), dps))
        if j == 0:
            mp.mp.dps = dps
            events.append(S.ev_move("lt", r, a, 0, c, T, S.call(ec.move_dist_lt, r, a, T, S.acc_arg(c)), dps))
    vs = S.judge(ctx, "v", events)
    rej = 0
    for e, v in zip(events, vs):
        if v == "skip":
            ctx.skipped += 1
            continue
        ctx.count(("V", e["fn"], e["r"], e["a"], e["j"], e.get("c"), tuple(e["T"]["d"])))
        if v != "ok":
            rej += 1
            clause = "t3.zero_jerk_is_lt" if e["fn"] == "lt" else v
            ctx.violation(clause, {"mode": "V", "fn": e["fn"], "T": vlib.from_limbs(e["T"]), "rate": e["r"], "accel": e["a"], "jerk": e["j"],
                                   "accum": e.get("c", 0), "dps": e["dps"]}, "closed form of the recurrence", e["raw"])
    ctx.traces += len(events)
    e0 = events[0]
    ctx.sample({"mode": "V", "T": vlib.from_limbs(e0["T"]), "rate": e0["r"], "accel": e0["a"], "jerk": e0["j"], "accum": e0["c"],
                "ambient_dps": e0["dps"], "returned": e0["raw"], "verdict": vs[0]})
    ctx.stage("V", kind="code->spec", events=len(events), rejected=rej, max_T=max(vlib.from_limbs(e["T"]) for e in events),
              nonzero_jerk=sum(1 for e in events if e["j"] != 0))


def run(ctx):
    ec, _em, mp = S.mods()
    q = ctx.tier == "quick"
    ctx.run_tlc("e1.bigint", "BigIntTest", "BigIntTest_%s.cfg" % ctx.tier)
    ctx.run_tlc("e1.stepper", "StepperMC", "Stepper_small.cfg", coverage=True)
    ctx.run_tlc("e1.stepper_t3", "StepperMC", "Stepper_small_t3.cfg")
    ctx.run_tlc("e1.leap", "StepperLeapMC", "StepperLeap_t3_quick.cfg" if q else "StepperLeap_thorough.cfg")
    ctx.run_tlc("e1.leap_domain", "StepperLeapMC", "StepperLeap_domain.cfg")
    proved = c01.apalache(ctx)
    g_t3(ctx, ec, mp, "Stepper_full_t3_%s.cfg" % ctx.tier)
    v_t3(ctx, ec, mp, 2500 if q else 120000)
    mp.mp.dps = 15
    ctx.exhaustive = True
    ctx.trusted += ["TLC 1.8", "Apalache 0.58 (closed form = recurrence, unbounded)", "BigInt.tla", "vlib TLA value parser", "harness limb encoding"]
    ctx.assumptions += ["domain: every per-tick |rate| and |accel| <= 2^31-1 (the spec's DomainOK decides membership); start accumulator in [0,2^31) or clear",
                        "the clear rule looks at the recurrence's first three rates whatever T is (a load-time decision)",
                        "ambient mpmath precision drawn from {1,5,15,30,60}", "apalache inductive invariant discharged: %s" % proved]
    return ctx.finish(
        rule="G: every tick state of the third-order machine stepped by TLC at modulus 2^31 from the boundary universe (incl. all start rates making tick 1 "
             "zero and jerk = -accel making tick 2 zero) is a vector for move_dist_t3, rate_t3 and, with zero jerk, move_dist_lt; V: random in-domain calls "
             "(T up to ~2.6e5 with jerk, 2^32 without) judged by TLC with the cubic closed form; distinct = distinct (fn,T,rate,accel,jerk,acc)",
        explanation="As C01 with the third-order tick (rate+=accel; accel+=jerk). The three-level clear rule is checked against the ticks (ClearRule) by TLC.")


def replay(rec):
    ec, _em, mp = S.mods()
    c = rec["case"]
    T, r, a, j, acc, dps = c["T"], c["rate"], c["accel"], c["jerk"], c.get("accum", 0), c.get("dps", 15)
    evs = []
    if c.get("prelude"):
        pT, pr, pa, pj, pc = c["prelude"]              # observed after this call had been made
        call_t3(ec, mp, 15, pT, pr, pa, pj, pc)
        S.call(ec.rate_t3, pT, pr, pa, pj)
    out = call_t3(ec, mp, dps, T, r, a, j, acc)
    evs.append(S.ev_move("t3", r, a, j, acc, T, out, dps))
    mp.mp.dps = dps
    evs.append(S.ev_val("rate", r, a, j, T, S.call(ec.rate_t3, T, r, a, j), dps))
    if j == 0:
        mp.mp.dps = dps
        evs.append(S.ev_move("lt", r, a, 0, acc, T, S.call(ec.move_dist_lt, r, a, T, S.acc_arg(acc)), dps))
    ctx = vlib.Ctx("C02", "quick", 0, LEVEL, fresh=False)
    vs = S.judge(ctx, "replay", evs)
    return all(v in ("ok", "skip") for v in vs), {"verdicts": vs, "returned": [e["raw"] for e in evs]}
