"""C03 - step-limited (LM) duration is the first tick that exhausts the budget. Specs: Stepper (cnt, stepped), StepperLeap (CntAtL, IsFirstTick), StepperTrace."""
import steplib as S
import vlib

LEVEL = "model_checking"
# C03 quantifies over inputs only (C01/C02 name the ambient precision, C03 does not): the calls are made at the two precisions a caller finds
# without doing anything - mpmath's default and the 30 digits any earlier ebb_calc call leaves behind
DPS = [15, 30]


def call_lm(ec, mp, dps, steps, r, a, c):
    mp.mp.dps = dps
    return S.call(ec.calculate_lm, steps, r, a, S.acc_arg(c))


def lt_feedback(ec, mp, dps, steps, r, a, c, out):
    """the statement's 'feeding the reported duration to the timed-move predictor'"""
    if not S.ints(out, 3) or out[0] < 1:
        return None
    rr, aa = (-r, -a) if steps < 0 else (r, a)
    mp.mp.dps = dps
    return S.call(ec.move_dist_lt, rr, aa, out[0], S.acc_arg(c))       # a Raised here is a failed feedback, not a skipped one


def g_lm(ctx, ec, em, mp, cfg):
    events = []
    seen = []
    n = 0
    for st in S.stepped_vectors(ctx, "g_full", cfg, keep=lambda s: s["stepped"] and s["cnt"] >= 1):
        c = st["cmd"]
        r, a, acc_in, T, steps = c["r"], c["a"], c["c"], st["tick"], st["cnt"]
        want = (T, st["pos"], st["acc"])
        n += 1
        if len(seen) < 30000 and n % 2 == 0:
            seen.append((steps, r, a, acc_in, want))
        dps = DPS[(r + a + T) % len(DPS)]
        forms = [(steps, r, a, "calculate_lm")]
        if r <= 0:
            forms.append((-steps, -r, -a, "calculate_lm(legacy negative steps)"))
        for (s_in, r_in, a_in, fn) in forms:
            got = call_lm(ec, mp, dps, s_in, r_in, a_in, acc_in)
            ctx.count(("G", s_in, r_in, a_in, acc_in))
            case = {"mode": "G", "fn": fn, "steps": s_in, "rate": r_in, "accel": a_in, "accum": acc_in, "dps": dps}
            if got != want:
                cl = "lm.raises" if isinstance(got, S.Raised) else "lm.duration_is_first_tick" if (not isinstance(got, tuple) or got[0] != T) else \
                    ("lm.position" if got[1] != want[1] else "lm.accumulator")
                ctx.violation(cl, case, list(want), repr(got), input_class=input_class(s_in, r_in, a_in, acc_in))
            else:
                fb = lt_feedback(ec, mp, dps, s_in, r_in, a_in, acc_in, got)
                if fb != (want[1], want[2]):
                    ctx.violation("lm.feeds_timed_move", case, [want[1], want[2]], repr(fb))
        if steps == 1:
            # requests that cannot move report (0, 0, 0): zero budget, and the legacy negative budget with a negative rate
            for (s0, r0_, a0_) in ((0, r, a), (-3, -abs(r) - 1, a)) + (((5, 0, 0), (-5, 0, 0)) if n % 50 == 1 else ()):
                if abs(r0_) > S.MM1:
                    continue
                gz = call_lm(ec, mp, dps, s0, r0_, a0_, acc_in)
                if gz != (0, 0, 0):
                    ctx.violation("lm.raises" if isinstance(gz, S.Raised) else "lm.cannot_move_reports_zero",
                                  {"mode": "G", "fn": "calculate_lm", "steps": s0, "rate": r0_, "accel": a0_, "accum": acc_in, "dps": dps}, [0, 0, 0], repr(gz))
        if acc_in == S.CLEAR:
            mp.mp.dps = dps
            gt = S.call(em.moveTimeLM, r, steps, a)
            if gt != T:
                ctx.violation("lm.alias_moveTimeLM", {"mode": "G", "fn": "moveTimeLM", "steps": steps, "rate": r, "accel": a, "accum": acc_in, "dps": dps},
                              T, repr(gt), input_class=input_class(steps, r, a, acc_in))
        if len(events) < 12000 and (n % 3 == 0 or steps <= 2):
            events.append(S.ev_lm(steps, r, a, acc_in, want, (want[1], want[2]), T, dps, via="stepped"))
        if n % 5003 == 1:
            ctx.sample({"mode": "G", "steps": steps, "rate": r, "accel": a, "accum": "clear" if acc_in == S.CLEAR else acc_in,
                        "stepped_first_tick": {"T": T, "pos": want[1], "acc": want[2]}, "calculate_lm": repr(got)})
    prev = None
    for (steps, r, a, acc_in, want) in reversed(seen):             # opposite order: no answer may depend on earlier calls
        got = call_lm(ec, mp, 15, steps, r, a, acc_in)
        if got != want:
            ctx.violation("lm.duration_is_first_tick", {"mode": "G", "fn": "calculate_lm", "steps": steps, "rate": r, "accel": a, "accum": acc_in, "dps": 15,
                                                        "order": "second pass, reverse order", "prelude": prev}, list(want), repr(got))
            if ctx.enough(30):
                break
        prev = [steps, r, a, acc_in]
    vs = S.judge(ctx, "g_cross", events)
    off = [(e, v) for e, v in zip(events, vs) if v != "ok"]
    if off:
        raise vlib.MachineryError("stepped LM answer rejected by StepperLeap (%s): %r" % (off[0][1], off[0][0]))
    ctx.stage("g_cross", kind="oracle cross-check", stepped_lm_answers_judged_by_leap=len(events))
    ctx.traces += n


def input_class(steps, r, a, c):
    """classes decided from the input alone (for open known findings, none at present)"""
    return None


def draw_lm(rng):
    """random (steps, rate, accel, acc) whose budget completes inside the valid domain (witness found), plus trivial forms"""
    for _ in range(200):
        k = rng.random()
        if k < 0.04:
            return rng.choice([(0, S.rand_signed(rng), S.rand_signed(rng)), (rng.randint(1, 9), 0, 0), (-rng.randint(1, 9), 0, 0),
                               (-rng.randint(1, 99), -max(1, S.rand_mag(rng)), S.rand_signed(rng))]) + (S.rand_acc(rng),)
        if k < 0.16:
            d = draw_coincidence(rng)
            if d:
                return d
            continue
        r = S.rand_signed(rng)
        kind = rng.random()
        if kind < 0.25:
            a = 0
            if r == 0:
                continue
        elif kind < 0.55:
            # reversal: accel opposes rate; reversal after about tr ticks
            tr = max(1, rng.getrandbits(rng.choice([1, 2, 3, 5, 8, 12, 16, 20])))
            a = -(r // tr) + rng.choice([0, 0, 1, -1])
            if rng.random() < 0.3:
                a = -r * 2 // (2 * tr - 1) if tr > 0 else a          # t_rev* = 0.5 - r/a lands near an integer
            if a == 0 or abs(a) > S.MM1:
                continue
        else:
            a = S.rand_signed(rng, max(1, S.MM1 >> rng.choice([0, 4, 8, 12, 16, 20, 24, 28])))
        if rng.random() < 0.08:
            r = S.tdiv(a, 2) - a + rng.choice([-1, 0, 1])
        if rng.random() < 0.05 and abs(a) >= 2:
            # start rate at the edge of the range with an opposing acceleration: the adjusted start rate r - trunc(a/2) itself does not fit
            # 32 bits, every per-tick rate does
            r = (S.MM1 - rng.choice([0, 0, 1, 2, rng.randint(0, abs(a) // 2)])) * (-1 if a > 0 else 1)
        if abs(r) > S.MM1 or (r == 0 and a == 0):
            continue
        c = S.rand_acc(rng)
        steps = rng.choice([1, 1, 2, 3, rng.randint(1, 40), rng.randint(1, 5000), max(1, rng.getrandbits(rng.randint(1, 24)))])
        neg = r >= 0 and rng.random() < 0.15        # legacy form
        tw = S.lm_witness(steps, r, a, c)
        if tw is None:
            if rng.random() < 0.9:
                continue
        if neg:
            return (-steps, r, a, c, S.lm_witness(steps, -r, -a, c), True)
        return (steps, r, a, c, tw, True)
    return (1, 1000, 0, 0, None, True)


def draw_coincidence(rng):
    """an accelerated move constructed to land EXACTLY on a step boundary at a chosen tick, or to end exactly as its rate reaches zero:
    pick (rate, accel, T), then the start accumulator that makes total(T) a multiple of 2^31 (the branch-deciding coincidences of the statement)"""
    T = max(2, rng.getrandbits(rng.choice([2, 3, 4, 6, 8, 10, 12, 14, 16, 18])))
    mode = rng.random()
    if mode < 0.12:
        # a long constant-rate move (millions of steps): rate x ticks beyond 2^53, so the boundary landing is decided by digits that
        # double-precision arithmetic does not have (seed C03_9)
        T = max(2, rng.getrandbits(rng.choice([20, 22, 24, 26, 28])))
        a = 0
        r = rng.choice([-1, 1]) * rng.randint(2 ** 26, S.MM1)
    elif mode < 0.35:
        # ends as the rate reaches zero: rate_T = r0 + a*T = 0 (or one tick either side)
        a = S.rand_signed(rng, max(1, S.MM1 // T)) or 1
        r = -a * (T + rng.choice([-1, 0, 0, 0, 1])) + S.tdiv(a, 2)
    elif mode < 0.7:
        # reversal in the middle, budget completed after it
        a = S.rand_signed(rng, max(1, S.MM1 // T)) or 1
        r = -a * rng.randint(1, T) + S.tdiv(a, 2) + rng.choice([-1, 0, 1])
    else:
        r = S.rand_signed(rng)
        a = S.rand_signed(rng, max(1, (S.MM1 - abs(r)) // T))
    if abs(r) > S.MM1 or abs(a) > S.MM1 or (r == 0 and a == 0) or not S.in_domain(r, a, 0, T):
        return None
    tot = S.total_at(r, a, 0, 0, T)
    c = (-tot) % S.M                      # total(T) with this start accumulator is a multiple of 2^31: a boundary landing at tick T
    if rng.random() < 0.25:
        c = (c + rng.choice([-1, 1])) % S.M          # ... or one unit either side of it
    steps = S.cnt_at(r, a, c, T)
    if rng.random() < 0.3:
        steps += rng.choice([-1, 1])
    if steps < 1:
        return None
    tw = S.lm_witness(steps, r, a, c)
    if tw is None:
        return None
    if r <= 0 and rng.random() < 0.3:
        return (-steps, -r, -a, c, tw, True)          # the legacy form mirrors the move
    return (steps, r, a, c, tw, True)


def v_inputs(seed, n):
    """the V stage's input sequence, a function of the seed alone (the replay command regenerates a prefix of it)"""
    import random
    rng = random.Random(seed * 1000003 + 303)
    for _ in range(n):
        d = draw_lm(rng)
        if len(d) == 4:
            steps, r, a, c = d
            tw = None
        else:
            steps, r, a, c, tw, _ = d
        yield steps, r, a, c, tw, rng.choice(DPS)


def v_lm(ctx, ec, em, mp, n):
    events = []
    for k, (steps, r, a, c, tw, dps) in enumerate(v_inputs(ctx.seed, n)):
        out = call_lm(ec, mp, dps, steps, r, a, c)
        fb = lt_feedback(ec, mp, dps, steps, r, a, c, out)
        events.append(dict(S.ev_lm(steps, r, a, c, out, fb, tw, dps), vk=k))
        if c == S.CLEAR:
            # the deprecated wrapper reports the same duration (it always clears); judged as the full answer with calculate_lm's position/accumulator
            mp.mp.dps = dps
            gt = S.call(em.moveTimeLM, r, steps, a)
            if S.ints(out, 3):
                events.append(dict(S.ev_lm(steps, r, a, c, (gt, out[1], out[2]) if S.ints(gt) else gt, None, tw, dps, via="moveTimeLM"), vk=k))
    vs = S.judge(ctx, "v", events, chunk=1500)
    rej = 0
    for e, v in zip(events, vs):
        if v == "skip":
            ctx.skipped += 1
            continue
        ctx.count(("V", e["steps"], e["r"], e["a"], e["c"]))
        if v != "ok":
            rej += 1
            if e["via"] == "moveTimeLM":
                v = "lm.alias_moveTimeLM"
            ctx.violation(v, {"mode": "V", "fn": e["via"], "steps": e["steps"], "rate": e["r"], "accel": e["a"], "accum": e["c"], "dps": e["dps"],
                              "vseq": [ctx.seed, e["vk"]],
                              "first_tick_witness": vlib.from_limbs(e["Tw"]) if e["hasw"] else None},
                          "first tick reaching the budget, recurrence state there", e["raw"],
                          input_class=input_class(e["steps"], e["r"], e["a"], e["c"]))
    ctx.traces += len(events)
    e0 = next((e for e in events if e["hasw"]), events[0])
    ctx.sample({"mode": "V", "steps": e0["steps"], "rate": e0["r"], "accel": e0["a"], "accum": e0["c"], "ambient_dps": e0["dps"],
                "witness_first_tick": vlib.from_limbs(e0["Tw"]), "returned": e0["raw"]})
    ctx.stage("V", kind="code->spec", events=len(events), rejected=rej, with_witness=sum(1 for e in events if e["hasw"]),
              max_duration=max(vlib.from_limbs(e["Tw"]) for e in events))


def run(ctx):
    ec, em, mp = S.mods()
    q = ctx.tier == "quick"
    ctx.run_tlc("e1.bigint", "BigIntTest", "BigIntTest_%s.cfg" % ctx.tier)
    ctx.run_tlc("e1.stepper", "StepperMC", "Stepper_small.cfg", coverage=True)
    ctx.run_tlc("e1.leap", "StepperLeapMC", "StepperLeap_lt_quick.cfg" if q else "StepperLeap_thorough.cfg")
    g_lm(ctx, ec, em, mp, "Stepper_full_lm_%s.cfg" % ctx.tier)
    v_lm(ctx, ec, em, mp, 3000 if q else 150000)
    mp.mp.dps = 15
    ctx.exhaustive = True
    ctx.trusted += ["TLC 1.8", "BigInt.tla", "StepperLeap!CntAtL / IsFirstTick (checked equal to the stepped step count on the complete small universe, reversals included)",
                    "vlib TLA value parser", "harness limb encoding"]
    ctx.assumptions += ["domain: the recurrence completes the budget with every per-tick |rate| <= 2^31-1; in V the harness proposes the first-tick witness "
                        "and TLC verifies it (cnt(T)=steps, cnt(T-1)<steps, rates in range) before judging - no verified witness means the call is skipped",
                        "ambient mpmath precision 15 (mpmath default) or 30 (what any ebb_calc call leaves behind)"]
    return ctx.finish(
        rule="G: TLC steps the machine at modulus 2^31 from the boundary universe; every state in which the motor has just stepped is the expected "
             "(duration, position, accumulator) for the budget cnt - one chain gives the answer for every budget it passes, reversals included; the legacy "
             "negative-step form, moveTimeLM and the move_dist_lt feedback are checked on the same vectors; V: random (steps, rate, accel, acc) with durations "
             "up to 2^32 ticks judged by TLC (IsFirstTick + closed form); distinct = distinct (steps,rate,accel,acc)",
        explanation="The duration is definitional on the Stepper machine (first state with cnt = steps). TLC checks cnt grows by at most one per tick and that "
                    "the BigInt step-count formula (with the reversal decomposition) equals the stepped count on every small instance, which lets it decide "
                    "minimality for durations of billions of ticks.")


def replay(rec):
    ec, _em, mp = S.mods()
    c = rec["case"]
    steps, r, a, acc, dps = c["steps"], c["rate"], c["accel"], c.get("accum", S.CLEAR), c.get("dps", 15)
    if c.get("prelude"):
        ps, pr, pa, pc = c["prelude"]                  # observed after this call had been made
        call_lm(ec, mp, 15, ps, pr, pa, pc)
    if c.get("vseq"):
        # observed as call number k of the V stage: make the calls that came before it (an answer may depend on them), as the stage did
        seed, k = c["vseq"]
        for (ps, pr, pa, pc, _tw, pdps) in v_inputs(seed, k):
            out0 = call_lm(ec, mp, pdps, ps, pr, pa, pc)
            lt_feedback(ec, mp, pdps, ps, pr, pa, pc, out0)
            if pc == S.CLEAR:
                mp.mp.dps = pdps
                S.call(_em.moveTimeLM, pr, ps, pa)
    if c.get("fn") == "moveTimeLM":
        mp.mp.dps = dps
        t = S.call(_em.moveTimeLM, r, steps, a)
        tw = S.lm_witness(steps, r, a, S.CLEAR)
        full = call_lm(ec, mp, dps, steps, r, a, S.CLEAR)
        out = (t, full[1], full[2]) if isinstance(full, tuple) else full
    else:
        out = call_lm(ec, mp, dps, steps, r, a, acc)
    rr, aa = (-r, -a) if steps < 0 else (r, a)
    tw = S.lm_witness(abs(steps), rr, aa, acc) if steps and (r or a) and not (steps < 0 and r < 0) else None
    fb = lt_feedback(ec, mp, dps, steps, r, a, acc, out)
    ev = S.ev_lm(steps, r, a, acc, out, fb, tw, dps)
    ctx = vlib.Ctx("C03", "quick", 0, LEVEL, fresh=False)
    v = S.judge(ctx, "replay", [ev])[0]
    if v in ("ok", "skip") and c.get("mode") == "G" and not c.get("prelude"):
        # holds on its own: in the G stage this call came after thousands of others - run that stage again and look for the same input
        import json
        sub = vlib.Ctx("C03", "quick", 0, LEVEL, fresh=False)
        sub.replaydir = __import__("os").path.join(sub.workdir, "replay_stage")
        g_lm(sub, ec, _em, mp, "Stepper_full_lm_quick.cfg")
        again = []
        for path in [p for p in sub.violations if p]:
            k = json.load(open(path))
            if k["clause"] == rec.get("clause"):         # the stage visits its vectors in TLC's dump order, which may differ: the same clause, not the same input
                again.append(k["case"])
        return not again, {"verdict": v, "returned": repr(out), "whole_G_stage_again": {"violations": len([p for p in sub.violations if p]), "same_clause": again[:1]}}
    return v in ("ok", "skip"), {"verdict": v, "returned": repr(out), "first_tick_witness": tw}
