"""C04 - the EBB3 object latches its first error and then transmits nothing. Specs: EBB3Ops, EBB3Link, EBB3Trace (focus C04)."""
import ebb3lib as L
import vlib
import c05

LEVEL = "model_checking"
FOCUS = "C04"


NOT_REQUESTS = {"find_first", "min_version", "parse_version"}        # public, but never talk to the port
ALIASES = {"dio_b_set": "pb_set"}


def alphabet_covers_class(ctx):
    """C04 is about EVERY request method: a public method the alphabet does not know is reported (DRIFT + evidence), never silently skipped"""
    e3m, _e3s, _ser = L.mods()
    pub = {n for n in dir(e3m.EBBMotionWrap) if not n.startswith("_") and callable(getattr(e3m.EBBMotionWrap, n))}
    unknown = sorted(ALIASES.get(n, n) for n in pub if ALIASES.get(n, n) not in L.ALL_METHODS and n not in NOT_REQUESTS)
    gone = sorted(m for m in L.ALL_METHODS if m not in {ALIASES.get(n, n) for n in pub})
    ctx.stage("alphabet", kind="self-check", public_methods=len(pub), not_in_alphabet=unknown, in_alphabet_but_gone=gone)
    if unknown:
        ctx.note_drift("public methods of EBBMotionWrap outside the checked alphabet (their guards are NOT judged)", unknown)


def run(ctx):
    q = ctx.tier == "quick"
    alphabet_covers_class(ctx)
    ctx.run_tlc("e1", "EBB3LinkMC", "EBB3Link_c04.cfg" if q else "EBB3Link_c04_deep.cfg", coverage=q)
    # refinement: the impl-shaped machine implements the one-paragraph abstraction (EBB3Abs) under the mapping of EBB3Refine
    ctx.run_tlc("e1.refines_EBB3Abs", "EBB3Refine", "EBB3Refine.cfg")
    if q:
        c05.g_scripts(ctx, FOCUS, "gen_dead_by_call", "EBB3Link_gen04a.cfg", 2, True)       # all methods; death by disconnect/record_error/reboot/bootload
        c05.g_scripts(ctx, FOCUS, "gen_dead_by_fault", "EBB3Link_gen04b.cfg", 2, True)      # core alphabet; every fault kind at every read/write
    else:
        c05.g_scripts(ctx, FOCUS, "gen_dead", "EBB3Link_gen04.cfg", 2, True)
    c05.g_scripts(ctx, FOCUS, "gen_remembered", "EBB3Link_gen04n.cfg", 3, True)          # learn a name, die, ask again with the name the object holds
    c05.g_scripts(ctx, FOCUS, "gen_notconnected", "EBB3Link_gen04nc.cfg", 1, False)
    c05.g_scripts(ctx, FOCUS, "gen_connect", "EBB3Link_gen15.cfg", 3, False, every=8 if q else 1)
    c05.v_histories(ctx, FOCUS, 150 if q else 5000, 30, 0.12, 4)
    c05.v_histories(ctx, FOCUS, 60 if q else 2000, 20, 0.1, 41, devs=("ebb_ok", "ebb_late", "ebb_old", "ebb_late_old", "ebb_noversion", "ebb_in_text", "non_ebb", "other_versioned", "silent", "unopenable", "absent", "raise_on_probe"),
                    start_connected=False)
    ctx.exhaustive = True
    ctx.trusted += ["TLC 1.8", "harness/ebb3lib.py ScriptedPort", "PyBoard (cross-checked by the judge)", "vlib parser"]
    ctx.assumptions += ["the recorded message is compared by identity (never replaced), not by text",
                        "a call is 'dead at entry' when err is set or the port is None before it; connect / disconnect / record_error are exempt from silence",
                        "arguments come from each method's documented domain"]
    return ctx.finish(
        rule="G: every complete 2-call history of the model over all 41 request shapes (first call with a fault of any kind at any write or read, or "
             "disconnect / record_error; second call any method), every method on a never-connected object, and 3-call histories with connect() against 8 "
             "device kinds are executed on a real object and judged by TLC; V: random 30-call histories over all methods (and 20-call ones starting "
             "unconnected against all device kinds); distinct = distinct scripts",
        explanation="TLC checks ErrLatched (action property: the error identity never changes once set), SilentWhenDead, DeadCallFails, DeadStaysDead on the "
                    "impl-shaped machine for all histories of <=3 calls (thorough 4) with <=2 faults; the real object is judged per call: a dead object writes "
                    "nothing and returns its failure value, the recorded message object is never replaced, nothing is written after the failing request of a call.")


def replay(rec):
    return c05.replay(rec)
