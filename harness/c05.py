"""C05 - EBB3 command/query framing and fault handling. Specs: EBB3Ops, EBB3Link, EBB3Trace (focus C05)."""
import os
import random
import zlib

import ebb3lib as L
import vlib

LEVEL = "model_checking"
FOCUS = "C05"
PINNED = [("FixStatus", "FailureReported", "query_statusbyte returns a number for a mismatched reply"),
          ("FixNick", "FailureReported", "write_nickname returns True after a failed ST"),
          ("FixQC", "NoRaise", "query_voltage/query_current dereference the None of their own failed query")]


def pinned_selftests(ctx, base_cfg, fixes):
    """the specification itself refutes the pinned (pre-fix) behaviours: TLC must find the counterexample"""
    out = []
    for fix, inv, what in fixes:
        src = open(os.path.join(vlib.SPEC, base_cfg)).read().replace("%s = TRUE" % fix, "%s = FALSE" % fix)
        name = "_selftest_%s_%d.cfg" % (fix, os.getpid())          # unique: two checks may run at the same time
        with open(os.path.join(vlib.SPEC, name), "w") as fh:
            fh.write(src)
        try:
            res = ctx.run_tlc("e1.pinned_" + fix, "EBB3LinkMC", name, expect_ok=False, workers=4)
        finally:
            os.remove(os.path.join(vlib.SPEC, name))
        if res["violated"] != inv:
            raise vlib.MachineryError("self-test %s: expected TLC to refute %s, got %r" % (fix, inv, res["violated"]))
        ctx.stages[-1]["note"] = "expected: TLC refutes %s for the pinned behaviour (%s)" % (inv, what)
        out.append(fix)
    return out


def select_scripts(allitems, every, offset):
    """deterministic thinning of the model's complete histories: every `every`-th of each stratum (device, first two methods called), ranked by
    content, so the selection does not depend on TLC's dump order and no stratum is left without a representative"""
    if every <= 1:
        return list(range(len(allitems)))
    strata = {}
    for idx, (hist, dev, board, _st) in enumerate(allitems):
        key = repr((sorted(board.items()) if isinstance(board, dict) else board, [(h["m"], list(h["a"]), h["s"], repr(h["env"])) for h in hist]))
        # a device swap belongs to the stratum; within a stratum histories that END in connect() rank first (after a swap or a failure it is the
        # call that can go wrong in a new way; the other methods are dead calls there)
        swaps = tuple(h["s"] for h in hist if h["m"] == "<replug>")
        strata.setdefault((dev, tuple(h["m"] for h in hist)[:2], swaps), []).append(((hist[-1]["m"] != "connect", key), idx))
    chosen = []
    for members in strata.values():
        members.sort()
        size = len(members)
        for rank, (_k, idx) in enumerate(members):
            if rank == 0 or (rank + offset) % every == 0:          # the top-ranked member of every stratum always runs
                chosen.append(idx)
    return sorted(chosen)


def g_scripts(ctx, focus, name, cfg, ncalls, start_connected, cap=None, every=1):
    dump = os.path.join(ctx.workdir, name, "states")
    ctx.run_tlc(name, "EBB3LinkMC", cfg, dump=dump)
    items, events, drifts = [], [], 0
    conn_model = conn_real = 0
    opened0 = len(L.OPENED)
    allitems = [(hist, dev, board, None) for hist, dev, board, _st in L.scripts_from_dump(dump + ".dump", ncalls)]
    n = len(allitems)
    strata = len({(dev, tuple(h["m"] for h in hist)[:2], tuple(h["s"] for h in hist if h["m"] == "<replug>")) for hist, dev, _b, _s in allitems})
    for k, idx in enumerate(select_scripts(allitems, every, ctx.seed)):
        if cap and len(items) >= cap:
            break
        hist, dev, board, _st = allitems[idx]
        # padding / connect() form / close() behaviour are a function of the history's content (not of TLC's dump order) and of the seed
        wsoff = zlib.crc32(repr((dev, sorted(board.items()), [(h["m"], list(h["a"]), h["s"], repr(h["env"])) for h in hist])).encode()) % 997 + ctx.seed
        calls, drift = L.run_script(hist, dev, board, start_connected, wsoff=wsoff)
        for h, c in zip([x for x in hist if x["m"] != "<replug>"], calls):
            if h["m"] == "connect" and h["obs"] and list(h["obs"][0]["ret"]) == ["bool", True]:
                conn_model += 1
                conn_real += c["ret"] == ["bool", True]
        script = [[h["m"], list(h["a"]), h["s"], [dict((k2, v) for k2, v in e.items() if k2 != "r") for e in h["env"]]] for h in hist]      # incl. <replug> entries
        ctx.count((focus, repr(script), dev))
        items.append((calls, dev, board, script))
        events.append(L.event_of(calls, dev, board, focus))
        if drift:
            drifts += 1
            ctx.note_drift("real object differs from the impl-shaped model's prediction", {"script": script, "diff": drift[:1]})
        if k % 997 == 1:
            ctx.sample({"mode": "G", "script": script, "device": dev, "observed": [[c["m"], c["ret"], c["err_set"], [o["t"] for o in c["ops"] if o["k"] == "w"]] for c in calls]})
    del allitems
    if conn_model >= 5 and conn_real == 0:
        if len(L.OPENED) == opened0:
            # the code under test never opened a port through the stubbed serial.Serial / comports (e.g. the layer now imports them under
            # another name): every connect history would pass vacuously
            raise vlib.MachineryError("%s: none of %d connects the model expects to succeed did, and no port was opened through the harness stubs "
                                      "- they do not reach the code under test" % (name, conn_model))
        # ports were opened, supported boards identified themselves, and not one connect() succeeded: the gate blocks the boards it exists to admit
        if focus == "C15":
            ctx.violation("connect.supported_board_is_accepted", {"mode": "G", "stage": name, "connects_expected_to_succeed": conn_model},
                          "True with no error for a board that identifies itself as an EBB with supported firmware", "no connect() of the stage returned True")
        else:
            ctx.note_drift("no connect() of stage %s succeeded although %d should: its connect histories say little (C15 reports this)" % (name, conn_model), {})
    os.remove(dump + ".dump")
    vs = L.judge(ctx, name + ".judge", events)
    rej, skipped = L.report(ctx, focus, "G", items, vs, None)
    ctx.skipped += skipped
    ctx.traces += len(items)
    ctx.stage(name + ".G", kind="spec->code->spec", complete_histories_in_model=n, strata=strata, every=every, connects_expected_to_succeed=conn_model, of_which_succeeded=conn_real, executed=len(items), rejected=rej, drifted=drifts, skipped=skipped)
    return n


def v_histories(ctx, focus, n, ncalls, fault_rate, salt, **kw):
    rng = random.Random(ctx.seed * 7368787 + salt)
    items, events = [], []
    for _ in range(n):
        calls, dev, b, script = L.random_history(rng, ncalls, fault_rate, **kw)
        ctx.count((focus, "V", repr(script), repr([c["ret"] for c in calls])))
        items.append((calls, dev, b, script))
        events.append(L.event_of(calls, dev, b, focus))
    vs = L.judge(ctx, "v%d" % salt, events, chunk=120)
    rej, skipped = L.report(ctx, focus, "V", items, vs, None)
    ctx.skipped += skipped
    ctx.traces += n
    c0 = items[0][0]
    ctx.sample({"mode": "V", "script": items[0][3][:6], "observed": [[c["m"], c["ret"], c["err_set"]] for c in c0[:6]], "verdict": vs[0]})
    ctx.stage("V%d" % salt, kind="code->spec", histories=n, calls=sum(len(i[0]) for i in items), rejected=rej, skipped=skipped,
              faulty_calls=sum(1 for i in items for c in i[0] if any(o["kind"] not in ("conf", "empty", "", "hand") or o["raised"] for o in c["ops"])))


def extra_none_text(ctx):
    """a request with no text does nothing (outside the model's alphabet: checked directly)"""
    sess = L.Session("ebb_ok", True, None, lambda t: {"w": "ok", "e": 0, "o": "conf", "r": {"vals": [], "s": ""}})
    try:
        for m, want in (("command", False), ("query", None), ("write_nickname", False)):
            ctx.count(("none_text", m))
            sess.cur_ops = []
            sess.port.ops = sess.cur_ops
            try:
                got = getattr(sess.obj, m)(None)
                bad = got is not want or sess.cur_ops or sess.obj.err is not None
            except Exception as ex:  # pylint: disable=broad-except
                got, bad = type(ex).__name__, True
            if bad:
                ctx.violation("frame.no_text_does_nothing", {"mode": "G", "method": m, "text": None}, want, repr(got))
    finally:
        sess.close()


def run(ctx):
    q = ctx.tier == "quick"
    pinned_selftests(ctx, "EBB3Link_c05.cfg", PINNED)
    ctx.run_tlc("e1", "EBB3LinkMC", "EBB3Link_c05.cfg" if q else "EBB3Link_c05_deep.cfg", coverage=q)
    ctx.run_tlc("e1.liveness", "EBB3LinkMC", "EBB3Link_live.cfg")          # every public call that was begun returns (silence, faults, error lines)
    g_scripts(ctx, FOCUS, "gen1", "EBB3Link_c05.cfg", 1, True)
    g_scripts(ctx, FOCUS, "gen2", "EBB3Link_gen2.cfg", 2, True, every=1 if not q else 3)
    extra_none_text(ctx)
    v_histories(ctx, FOCUS, 200 if q else 5000, 12, 0.06, 5,
                boards=[{"nick": "Lab", "m1": False, "m2": False, "res": 1, "volt": 300}, {"nick": "", "m1": True, "m2": False, "res": 3, "volt": 120},
                        {"nick": "Q7", "m1": True, "m2": True, "res": 2, "volt": 251}, {"nick": "East Wing", "m1": False, "m2": True, "res": 4, "volt": 250},
                        {"nick": "Lab", "m1": True, "m2": True, "res": 5, "volt": 249}, {"nick": "Lab", "m1": True, "m2": True, "res": 1, "volt": 300}])
    ctx.exhaustive = True
    ctx.trusted += ["TLC 1.8", "harness/ebb3lib.py ScriptedPort and reply rendering", "PyBoard (cross-checked by the judge's desync clause)", "vlib parser"]
    ctx.assumptions += ["timeouts are empty reads; USB faults are serial.SerialException at a write or a read; replies are ASCII",
                        "request names R / RB / BL are not in the command()/query() alphabet (the code deliberately ignores USB errors for them)",
                        "for reboot()/bootload() a failed write is reported by the return value only (named deviation RawFailureNotLatched)",
                        "the status-byte poll is one read without retries (named deviation StatusPollNoRetry)"]
    return ctx.finish(
        rule="G: every complete 1-call history of the model over all 41 public request shapes (every primitive of every method x write fault, bursts of "
             "0/1/25/26 empty reads, error line, named error line, wrong name, truncated name, read exception) and 2-call histories over the core alphabet are "
             "executed on a real EBBMotionWrap and judged by TLC; V: random 12-call histories over all methods with random arguments and a 25% fault rate; "
             "distinct = distinct scripts",
        explanation="EBB3Link is the impl-shaped machine (entry guard, primitive guard, one write, retry loop, validation, return value per method); TLC checks "
                    "NoRaise, WriteOncePerRequest, RetryBound, FailureReported, SuccessReported, ErrIffFailed on it and refutes the three pinned defects; the real "
                    "code is judged by EBB3Trace: one write per request with exactly one CR and the trimmed text, exactly min(e+1,26) reads, success iff a "
                    "conforming reply, failure value + recorded error on failure, the reply's payload returned on success.")


def replay(rec):
    c = rec["case"]
    focus = rec.get("focus", FOCUS)
    script = c["script"]
    if c["mode"] == "G":
        hist = [{"m": m, "a": a, "s": s, "env": env, "obs": []} for m, a, s, env in script]
        # the replies are not stored in the replay file: recompute them with the Python board (the judge cross-checks)
        pyb = L.PyBoard(**{k: c["board"][k] for k in ("nick", "m1", "m2", "res", "volt")})
        for h in hist:
            for e in h["env"]:
                e.setdefault("r", None)
        calls, _ = run_script_with_board(hist, c["dev"], c["board"], pyb, start_connected=c.get("start_connected", True), ws=c.get("ws"),
                                         close_fault=c.get("close_fault", ""))
    else:
        return True, {"note": "V histories are regenerated from the seed; rerun the check with the same VERIF_SEED"}
    ctx = vlib.Ctx(rec["property"], "quick", 0, LEVEL, fresh=False)
    v = L.judge(ctx, "replay", [L.event_of(calls, c["dev"], c["board"], rec["property"])])[0]
    return v == "ok" or v.startswith("skip"), {"verdict": v, "calls": [[x["m"], x["ret"], x["err_set"]] for x in calls]}


def run_script_with_board(hist, dev, board, pyb, start_connected=True, ws=None, close_fault=""):
    state = {"env": []}

    def supplier(text):
        env = state["env"]
        plan = {"w": "ok"}
        if env and "w" in env[0]:
            plan["w"] = env.pop(0)["w"]
        if plan["w"] == "ok":
            pyb.receive(text)
            if env and "o" in env[0]:
                nxt = env.pop(0)
                plan["e"], plan["o"], plan["r"] = nxt["e"], nxt["o"], pyb.reply(text)
            else:
                plan["e"], plan["o"], plan["r"] = 0, "conf", pyb.reply(text)
        return plan
    sess = L.Session(dev, start_connected, board, supplier, close_fault=close_fault)
    calls = []
    try:
        for k, h in enumerate(hist):
            if h["m"] == "<replug>":
                sess.dev = h["s"]
                continue
            state["env"] = [dict(e) for e in h["env"]]
            wk = ws[len(calls)] if ws and len(calls) < len(ws) else k + len(h["s"])          # the padding / connect form the run used for this call
            calls.append(sess.run_call(h["m"], h["a"], h["s"], ws=wk))
    finally:
        sess.close()
    return calls, []
