"""C06 - helpers emit exactly the documented command text. Specs: EBBCmds (the command-text table), Cmds (enumerator + invariants)."""
import logging
import os
import re

import ebbfake
import vlib

LEVEL = "model_checking"
NONE = -1000001


def _mods():
    from plotink import ebb_motion, ebb_serial, ebb3_motion
    ebb_serial.logger.handlers = [logging.NullHandler()]
    ebb_serial.logger.propagate = False
    return ebb_motion, ebb_serial, ebb3_motion


def opt(v):
    return None if v == NONE else v


def legacy_call(em, es, h, a, port):
    """call the function-style helper for request h (None if the legacy layer has no such helper)"""
    A = [opt(v) for v in a]
    table = {
        "ab_move": lambda: em.doABMove(port, A[0], A[1], A[2]),
        "timed_pause": lambda: em.doTimedPause(port, A[0]),
        "lowlevel_move": lambda: em.doLowLevelMove(port, A[0], A[1], A[2], A[3], A[4], A[5], A[6]),
        "xy_move": lambda: em.doXYMove(port, A[0], A[1], A[2]),
        "abs_move": lambda: em.doAbsMove(port, A[0], A[1], A[2]),
        "motors_disable": lambda: em.sendDisableMotors(port),
        "motors_enable_both": lambda: em.sendEnableMotors(port, A[0]),
        "pen_lower": lambda: em.sendPenDown(port, A[0], A[1]),
        "pen_raise": lambda: em.sendPenUp(port, A[0], A[1]),
        "pb_config_out": lambda: em.PBOutConfig(port, A[0], A[1]),
        "pb_set": lambda: em.PBOutValue(port, A[0], A[1]),
        "toggle_pen": lambda: em.TogglePen(port),
        "pen_pos_down": lambda: em.setPenDownPos(port, A[0]),
        "pen_pos_up": lambda: em.setPenUpPos(port, A[0]),
        "pen_rate_down": lambda: em.setPenDownRate(port, A[0]),
        "pen_rate_up": lambda: em.setPenUpRate(port, A[0]),
        "set_layer": lambda: em.setEBBLV(port, A[0]),
        "query_layer": lambda: em.queryEBBLV(port),
        "query_pen_up": lambda: em.QueryPenUp(port),
        "query_button": lambda: em.QueryPRGButton(port),
        "query_steps": lambda: em.query_steps(port),
        "servo_timeout": lambda: em.servo_timeout(port, A[0], A[1]),
        "query_motors_pins": lambda: em.query_enable_motors(port),
        "query_voltage": lambda: em.queryVoltage(port),
        "query_nickname": lambda: es.query_nickname(port),
        "write_nickname": lambda: es.write_nickname(port, "Lab"),
        "reboot": lambda: es.reboot(port),
        "bootload": lambda: es.bootload(port),
    }
    return table.get(h)


GATED = {"servo_timeout", "query_voltage", "query_nickname", "write_nickname", "reboot"}      # legacy helpers that ask for the version first


def ebb3_call(obj, h, a):
    A = [opt(v) for v in a]
    table = {
        "timed_pause": lambda: obj.timed_pause(A[0]),
        "xy_move": lambda: obj.xy_move(A[0], A[1], A[2]),
        "abs_move": lambda: obj.abs_move(A[0], A[1], A[2]),
        "motors_disable": obj.motors_disable,
        "motors_enable_both": lambda: obj.motors_enable(A[0], A[0]),
        "motors_enable": lambda: obj.motors_enable(A[0], A[1]),
        "pen_lower": lambda: obj.pen_lower(A[0], A[1]),
        "pen_raise": lambda: obj.pen_raise(A[0], A[1]),
        "pb_config_out": lambda: obj.dio_b_config(A[0], A[1], 0),
        "dio_b_config": lambda: obj.dio_b_config(A[0], A[1], A[2]),
        "pb_set": lambda: obj.dio_b_set(A[0], A[1]),
        "dio_b_read": lambda: obj.dio_b_read(A[0]),
        "pen_pos_down": lambda: obj.pen_pos_down(A[0]),
        "pen_pos_up": lambda: obj.pen_pos_up(A[0]),
        "pen_rate_down": lambda: obj.pen_rate_down(A[0]),
        "pen_rate_up": lambda: obj.pen_rate_up(A[0]),
        "servo_timeout": lambda: obj.servo_timeout(A[0], A[1]),
        "query_steps": obj.query_steps,
        "clear_steps": obj.clear_steps,
        "clear_accumulators": obj.clear_accumulators,
        "var_write": lambda: obj.var_write(A[0], A[1]),
        "var_read": lambda: obj.var_read(A[0]),
        "var_write_int32": lambda: obj.var_write_int32(A[0], A[1]),
        "var_read_int32": lambda: obj.var_read_int32(A[0]),
        "query_voltage": obj.query_voltage,
        "query_current": obj.query_current,
        "motors_query_enabled": obj.motors_query_enabled,
        "query_nickname": obj.query_nickname,
        "write_nickname": lambda: obj.write_nickname("Lab"),
        "reboot": obj.reboot,
        "bootload": obj.bootload,
        "query_statusbyte": obj.query_statusbyte,
    }
    return table.get(h)


FREE = ("timed_pause",)        # the one helper whose statement leaves a choice (any chunks of 1..750 ms summing to n): judged by the statement when it differs from the table


def free_event(h, a, w):
    """lex an observed command list of a FREE helper for CmdsTrace"""
    if h == "timed_pause":
        ds, wf = [], True
        for line in w:
            m = re.fullmatch(r"SM,(\d{1,9}),0,0\r", line)
            if m:
                ds.append(int(m.group(1)))
            else:
                wf = False
        return {"h": h, "n": a[0], "ds": ds, "wf": wf}
    return {"h": h, "r1": a[0], "r2": a[1], "lines": [x[:-1] if x.endswith("\r") and not x.endswith("\r\r") else "<bad framing>" for x in w]}


def observe(fn, port):
    try:
        fn()
        return list(port.writes), None
    except ebbfake.Endless:
        return list(port.writes), "does not return (endless reads)"
    except Exception as ex:  # pylint: disable=broad-except
        return list(port.writes), type(ex).__name__ + ": " + str(ex)[:60]


def run(ctx):
    em, es, e3m = _mods()
    dump = os.path.join(ctx.workdir, "e1", "states")
    ctx.run_tlc("e1", "CmdsMC", "Cmds_%s.cfg" % ctx.tier, dump=dump)
    n = 0
    per = {}
    pending = []
    for st in vlib.read_dump(dump + ".dump"):
        n += 1
        h, a, lines = st["h"], list(st["a"]), list(st["lines"])
        want = [l + "\r" for l in lines]
        per[h] = per.get(h, 0) + 1
        case = {"mode": "G", "helper": h, "args": [None if v == NONE else v for v in a]}
        got = {}
        # legacy layer (the gated helper asks for the version first: one 'V' query, then the command)
        port = ebbfake.LegacyOKPort()
        fn = legacy_call(em, es, h, a, port)
        if fn is not None:
            ctx.count(("legacy", h, tuple(a)))
            w, exc = observe(fn, port)
            if h in GATED and [x.upper() for x in w[:1]] == ["V\r"]:
                w = w[1:]
            got["legacy"] = w
            if exc:
                ctx.violation("text.legacy_raises", dict(case, layer="legacy"), want, exc)
            elif w != want and h == "query_motors_pins" and sorted(w) == sorted(want):
                ctx.note_drift("the five independent pin reads come in another order than the table's", dict(case, layer="legacy"))
            elif w != want and h in FREE:
                pending.append((free_event(h, a, w), dict(case, layer="legacy"), want, w))
            elif w != want:
                ctx.violation("text.legacy_" + h, dict(case, layer="legacy"), want, w)
            else:
                # the same request again through the same port: the same text again (nothing remembered from the first call)
                _w2, exc2 = observe(fn, port)
                again = [x for x in port.writes if not (h in GATED and x.upper() == "V\r")]
                if exc2 or again != want + want:
                    ctx.violation("text.repeated_request_same_text", dict(case, layer="legacy", repeat=2), want + want, exc2 or again)
            # with no port nothing is sent (and nothing raised)
            fn0 = legacy_call(em, es, h, a, None)
            _w, exc0 = observe(fn0, ebbfake.LegacyOKPort())
            if exc0:
                ctx.violation("text.no_port_nothing_sent", dict(case, layer="legacy", port=None), "no effect", exc0)
        # EBB3 layer
        qe = (a[2], a[3]) if h == "motors_enable" else (0, 0)
        port3 = ebbfake.EchoPort(qe)
        obj = e3m.EBBMotionWrap()
        obj.port = port3
        fn3 = ebb3_call(obj, h, a)
        if fn3 is not None:
            ctx.count(("ebb3", h, tuple(a)))
            w3, exc3 = observe(fn3, port3)
            got["ebb3"] = w3
            if exc3:
                ctx.violation("text.ebb3_raises", dict(case, layer="ebb3"), want, exc3)
            elif w3 != want and h in FREE:
                pending.append((free_event(h, a, w3), dict(case, layer="ebb3"), want, w3))
            elif w3 != want:
                ctx.violation("text.ebb3_" + h, dict(case, layer="ebb3"), want, w3)
            elif h not in ("reboot", "bootload"):
                _w, exc2 = observe(fn3, port3)                 # same request again on the same object
                if exc2 or list(port3.writes) != want + want:
                    ctx.violation("text.repeated_request_same_text", dict(case, layer="ebb3", repeat=2), want + want, exc2 or list(port3.writes))
                if n % 4 == 0:
                    # a board that answers late (two read timeouts before every reply) must see exactly the same text
                    portd = ebbfake.EchoPort(qe, delay=2)
                    objd = e3m.EBBMotionWrap()
                    objd.port = portd
                    wd, excd = observe(ebb3_call(objd, h, a), portd)
                    if excd or wd != want:
                        ctx.violation("text.late_reply_same_text", dict(case, layer="ebb3", delay=2), want, excd or wd)
            if n % 5 == 0:
                # "with no port, nothing is sent" also after the object gave its port up while close() complained (the device was already gone)
                for how in ("disconnect", "reboot"):
                    portc = ebbfake.EchoPort(qe, close_raises=True)
                    objc = e3m.EBBMotionWrap()
                    objc.port = portc
                    try:
                        getattr(objc, how)()
                    except Exception:  # pylint: disable=broad-except
                        pass
                    before = len(portc.writes)
                    _w, excc = observe(ebb3_call(objc, h, a), portc)
                    if excc or len(portc.writes) != before:
                        ctx.violation("text.no_port_nothing_sent", dict(case, layer="ebb3", port="given up by %s() while close() raised" % how), "no effect",
                                      excc or portc.writes[before:])
            obj0 = e3m.EBBMotionWrap()                      # not connected: nothing can be sent; must not raise
            _w, exc0 = observe(ebb3_call(obj0, h, a), ebbfake.EchoPort())
            if exc0:
                ctx.violation("text.no_port_nothing_sent", dict(case, layer="ebb3", port=None), "no effect", exc0)
        if "legacy" in got and "ebb3" in got and got["legacy"] != got["ebb3"] and got["legacy"] == want:
            pass                                            # the ebb3 mismatch is already reported against the table
        if n % 397 == 1:
            ctx.sample({"mode": "G", "helper": h, "args": case["args"], "documented_lines": lines, "observed": got})
    os.remove(dump + ".dump")
    if pending:
        vs, _st = vlib.judge_events(os.path.join(ctx.workdir, "free"), "CmdsTrace", "CmdsTrace.cfg", [p[0] for p in pending])
        for (ev, case, want, w), v in zip(pending, vs):
            if v == "ok":
                ctx.note_drift("command list differs from the table's rendering but satisfies the statement (%s)" % ev["h"], case)
            else:
                ctx.violation(v, case, want, w)
    ctx.traces += n
    ctx.stage("G", kind="spec->code", vectors=n, per_helper=per, free_text_results_judged_by_statement=len(pending))
    ctx.exhaustive = True
    ctx.trusted += ["TLC 1.8", "the scripted ports in harness/ebbfake.py (all-OK legacy board, echoing EBB3 board)", "vlib parser"]
    ctx.assumptions += ["arguments are integers (None = not supplied); the legacy servo_timeout gate's preceding 'V' query is not part of the compared text",
                        "G only: the property is about one call at a time"]
    return ctx.finish(
        rule="G only: every helper x argument tuple of the TLC universe (integers over {-5,-1,0,1,2,5,6,750,751,1500,65535,2^31-1}, optional arguments "
             "{absent,0,1,3}, every pause 0..1600|2300 ms, motor requests (-1..6)^2 x all 36 prior QE answers) is issued through the legacy function with an "
             "all-OK port and through the EBB3 method with an echoing port; the exact bytes of every write are compared with the table; distinct = (layer,helper,args)",
        explanation="EBBCmds.tla is the documented command text of every helper; TLC checks the pause-chunk machine (each chunk 1..750, sum n, none for n<=0), the "
                    "low-level suppression rule, the clamped final EM and the number of commands per helper, and enumerates the request universe whose states carry "
                    "the expected lines.")


def replay(rec):
    em, es, e3m = _mods()
    c = rec["case"]
    h, a = c["helper"], [NONE if v is None else v for v in c["args"]]
    ctx = vlib.Ctx("C06", "quick", 0, LEVEL, fresh=False)
    # expected lines from TLC: evaluate the table for this one request
    want = rec.get("expected")
    reps = c.get("repeat", 1)
    if c["layer"] == "legacy":
        port = ebbfake.LegacyOKPort() if c.get("port", 1) is not None else None
        rp = ebbfake.LegacyOKPort()
        for _k in range(reps):
            w, exc = observe(legacy_call(em, es, h, a, port), port if port is not None else rp)
        w = [x for x in w if not (h in GATED and x.upper() == "V\r")]
    else:
        port3 = ebbfake.EchoPort((a[2], a[3]) if h == "motors_enable" else (0, 0), delay=c.get("delay", 0))
        obj = e3m.EBBMotionWrap()
        if c.get("port", 1) is not None:
            obj.port = port3
        for _k in range(reps):
            w, exc = observe(ebb3_call(obj, h, a), port3)
    ok = exc is None and (c.get("port", 1) is None or w == want)
    return ok, {"written": w, "exception": exc, "documented": want}
