"""C07 - legacy serial primitives. Spec: LegacyOps / LegacyLink / LegacyTrace."""
import json
import logging
import os
import random

import ebbfake
import vlib

LEVEL = "model_checking"
DELAY_MAP = {0: 0, 1: 1, 2: 99, 3: 100, 4: 101}        # small-R model delay -> real (R = 100)
QOK = ["QS\r", "QC\r", "QL\r", "QT\r", "QP\r", "QB\r", "qs\r", "QN\r", "QE\r", "QR\r"]
QNOOK = ["V\r", "v\r", "PI,B,15\r", "PI,E,0\r", "PI,C,1\r", "QM\r", "QG\r", "A\r", "I\r", "MR\r", "qg\r", "pi,A,6\r"]
CMDS = ["EM,1,1\r", "SM,100,0,0\r", "SP,1\r", "TP\r", "SC,4,16000\r", "XM,10,1,-1\r"]


def _mods():
    from plotink import ebb_serial
    import serial
    ebb_serial.logger.handlers = [logging.NullHandler()]
    ebb_serial.logger.propagate = False
    return ebb_serial, serial


class Endless(BaseException):
    """raised by the scripted port after far more reads than any request may make: the primitive under test does not return"""


MAX_READS = 2000
ENDLESS = [0]             # requests that never returned so far in this run (after a few, the remaining histories are not run: the tree is broken)


class LegacyPort(ebbfake.PortExtras):
    """Scripted legacy board (mirrors LegacyOps!Enq / ReadQ); logs every port operation."""

    def __init__(self, serial_mod, log):
        self.serial = serial_mod
        self.log = log
        self.q = []            # [empties_before, token, text]
        self.plan = None
        self.n = 0
        self.reads = 0
        self.data_out = False
        self.raised = False
        self.texts = {}

    def arm(self, plan, n, name):
        self.plan, self.n, self.name, self.reads, self.data_out, self.raised = plan, n, name, 0, False, False
        self.dead = False

    def _exc(self, msg):
        """a serial I/O exception: pyserial's own, or the OSError the operating system layer raises under it"""
        return OSError(5, msg) if self.plan.get("exc") == "oserror" else self.serial.SerialException(msg)

    def _text(self, tok):
        if tok[0] == "ok":
            return "OK\r\n"
        if tok[0] == "err":
            return "!8 Err: fault injected %d\r\n" % tok[1]
        if tok[0] == "blank":
            return "\r\n"
        nm = self.name
        if nm == "qs":
            t = "%d,%d\r\n" % (tok[1], -tok[1])
        elif nm == "v":
            t = "EBBv13_and_above EB Firmware Version 2.8.%d\r\n" % tok[1]
        elif nm == "pi":
            t = "PI,%d\r\n" % tok[1]
        else:
            t = "%d\r\n" % (1000 + tok[1])
        return t

    def _dead_op(self):
        """flush / reset_*_buffer / cancel_* on a port whose transfer has just failed, within the same request: the device is gone, so these
        fail as well (half of the requests; pyserial raises from them on a closed or vanished descriptor).  A primitive that tidies up in
        its exception handler must not let that second failure out.  The pinned code calls none of them."""
        if self.plan is not None and getattr(self, "dead", False) and self.n % 2 == 0:
            raise self._exc("injected failure of a buffer operation on a dead port")

    flush = flushInput = flushOutput = reset_input_buffer = reset_output_buffer = cancel_read = cancel_write = _dead_op

    def write(self, data):
        p = self.plan
        if p["fault"] == "wraise":
            self.log.append({"ev": "wx"})
            self.dead = True
            raise self._exc("injected write failure")
        txt = data.decode("ascii", "replace") if isinstance(data, (bytes, bytearray)) else "<not bytes: %r>" % (data,)
        self.log.append({"ev": "w", "text": txt, "body": txt.rstrip("\r\n")})
        if p["fault"] == "silent":
            return len(data)
        n = self.n
        if p["fault"] == "errline":
            items = [[p["d1"], ["err", n]]]
        elif p["kind"] == "cmd":
            items = [[p["d1"], ["ok", n]]]
        elif p["kind"] == "qnook":
            items = [[p["d1"], ["blank" if p.get("blank") else "data", n]]]
        else:
            items = [[p["d1"], ["blank" if p.get("blank") else "data", n]], [p["d2"], ["ok", n]]]
        for e, tok in items:
            txt = self._text(tok)
            if txt.strip():
                self.texts[txt.strip()] = tok if tok[0] != "ok" else ["ok", 0]
            self.q.append([e, tok, txt])
        return len(data)

    def readline(self):
        p = self.plan
        self.reads += 1
        if self.reads > MAX_READS:
            raise Endless()
        if (p["fault"] == "r1raise" and self.reads == 1) or (p["fault"] == "r2raise" and self.reads == 2) \
                or (p["fault"] == "rNraise" and self.data_out and not self.raised) \
                or (p["fault"] == "rkraise" and self.reads == p.get("rk", 1)):
            self.raised = True
            self.dead = True
            self.log.append({"ev": "rx"})
            raise self._exc("injected read failure")
        if not self.q:
            self.log.append({"ev": "r", "tok": ["empty"]})
            return b""
        if self.q[0][0] > 0:
            self.q[0][0] -= 1
            self.log.append({"ev": "r", "tok": ["empty"]})
            return b""
        _e, tok, txt = self.q.pop(0)
        if tok[0] in ("data", "blank"):
            self.data_out = True
        self.log.append({"ev": "r", "tok": tok})
        return txt.encode("ascii")

    def close(self):
        pass


def run_script(mods, script, tid):
    """Execute one history of legacy requests against a fresh scripted port; return its event log."""
    ebb_serial, serial = mods
    log = []
    port = LegacyPort(serial, log)
    for k, plan in enumerate(script):
        n = k + 1
        kind = plan["kind"]
        if kind == "cmd":
            text, fn = CMDS[(n + tid) % len(CMDS)], "command"
        elif kind == "qok":
            text, fn = QOK[(n + tid) % len(QOK)], "query"
        elif kind == "qnook":
            text, fn = QNOOK[(n + tid) % len(QNOOK)], "query"
        else:
            fn = "query" if (n + tid) % 2 else "command"
            text = "QS\r" if fn == "query" else "EM,0,0\r"
        term = ["\r", "\r", "\r", "", "\r\n", "\n"][(n * 7 + tid) % 6]           # callers may terminate a request differently, or not at all
        text = text.rstrip("\r") + term
        name = text.split(",")[0].strip().lower()
        log.append({"ev": "call", "first": k == 0, "fn": fn, "name": name, "kind": kind, "d1": plan["d1"], "d2": plan["d2"],
                    "fault": plan["fault"], "text": text, "body": text.rstrip("\r\n"), "blank": bool(plan.get("blank")), "exc": plan.get("exc", "serial"),
                    "rk": plan.get("rk", 0)})
        port.arm(plan, n, name)
        f = getattr(ebb_serial, fn)
        extra = {"verbose": False} if plan.get("quiet") else {}             # verbose=False: the same behaviour, logged at a lower level
        try:
            if kind == "noport":
                val = f(None, text, **extra)
            elif kind == "notext":
                val = f(port, None, **extra)
            else:
                val = f(port, text, **extra)
            if val is None:
                cls, tok = "none", ["empty"]
            elif isinstance(val, str):
                s = val.strip()
                cls = "str"
                tok = ["empty"] if val == "" else (["blank", n] if s == "" else port.texts.get(s, ["other", 0]))
            elif isinstance(val, bytes):
                cls, tok = "bytes", ["other", 0]
            else:
                cls, tok = "other", ["other", 0]
            log.append({"ev": "ret", "cls": cls, "tok": tok, "val": repr(val)[:60]})
        except Endless:
            ENDLESS[0] += 1
            log.append({"ev": "ret", "cls": "endless", "tok": ["other", 0], "val": "no return after %d reads" % MAX_READS})
            break
        except Exception as ex:  # pylint: disable=broad-except
            log.append({"ev": "ret", "cls": "raised", "tok": ["other", 0], "val": type(ex).__name__ + ": " + str(ex)[:60]})
    for e in log:
        e["tid"] = tid
    return log


def validate(ctx, name, logs):
    """Batch-validate event logs with LegacyTrace; returns per-log list of (event index, verdict) failures."""
    wd = os.path.join(ctx.workdir, name)
    os.makedirs(wd, exist_ok=True)
    tf = os.path.join(wd, "trace.ndjson")
    flat = []
    with open(tf, "w") as fh:
        for li, log in enumerate(logs):
            for ei, e in enumerate(log):
                fh.write(json.dumps(e) + "\n")
                flat.append((li, ei))
    dump = os.path.join(wd, "states")
    vlib.tlc(wd, "LegacyTrace", "LegacyTrace.cfg", workers=1, dump=dump, env={"TRACE_FILE": tf})
    fails = [[] for _ in logs]
    seen = 0
    for st in vlib.read_dump(dump + ".dump", only={"i", "verdict"}):
        if st["i"] == 0:
            continue
        seen += 1
        if st["verdict"] != "ok":
            li, ei = flat[st["i"] - 1]
            fails[li].append((ei, st["verdict"]))
    os.remove(dump + ".dump")
    if seen != len(flat):
        raise vlib.MachineryError("LegacyTrace: %d verdicts for %d events" % (seen, len(flat)))
    for f in fails:
        for ei, v in f:
            if v.startswith("desync"):
                raise vlib.MachineryError("LegacyTrace: harness device and spec device disagree (%s)" % v)
    return fails


def input_class(script, ei_log, log):
    return None


def judge_batch(ctx, mode, scripts, name):
    mods = _mods()
    logs = []
    for tid, s in enumerate(scripts):
        if ENDLESS[0] >= 12:
            break
        logs.append(run_script(mods, s, tid))
    scripts = scripts[:len(logs)]
    fails = validate(ctx, name, logs)
    nbad = 0
    for tid, (s, log, f) in enumerate(zip(scripts, logs, fails)):
        ctx.count((mode, json.dumps(s, sort_keys=True)))
        if f:
            nbad += 1
            ei, v = f[0]
            ctx.violation(v, {"mode": mode, "script": s, "tid": tid}, "ok", {"event_index": ei, "ret": log[ei], "log_tail": log[max(0, ei - 6):ei + 1]})
    ctx.traces += len(scripts)
    return logs, nbad


def run(ctx):
    tier = ctx.tier
    rng = random.Random(ctx.seed * 7919 + 7)
    # spec self-test: the pinned code shape (no decode on query's retry reads) must be refuted
    res = ctx.run_tlc("e1_pinned_selftest", "LegacyLink", "LegacyLink_pinned.cfg", expect_ok=False, workers=4)
    if res["violated"] != "NoRaise":
        raise vlib.MachineryError("LegacyLink self-test: un-decoded retry path was not refuted")
    ctx.stages[-1]["note"] = "expected: TLC refutes NoRaise for DecodeOnRetry = FALSE (one empty read before the data line)"
    # E1: small-R exhaustive with faults (thorough: 3 requests), and real-R conforming sequences
    if tier == "thorough":
        ctx.run_tlc("e1_small", "LegacyLink", "LegacyLink_small.cfg", coverage=False)
    ctx.run_tlc("e1_R100", "LegacyLink", "LegacyLink_quick.cfg", coverage=(tier == "thorough"))
    ctx.run_tlc("e1_liveness", "LegacyLink", "LegacyLink_live.cfg")          # every request that was begun returns, whatever the board does
    # G: scripts = hist of every complete history of the generating config
    dump = os.path.join(ctx.workdir, "gen", "states")
    ctx.run_tlc("gen", "LegacyLink", "LegacyLink_gen.cfg", dump=dump)
    scripts = []
    for st in vlib.read_dump(dump + ".dump", only={"hist", "pc"}, prefilter='pc = "idle"'):
        if len(st["hist"]) == 2:
            scripts.append([{"kind": p["kind"], "d1": DELAY_MAP[p["d1"]], "d2": DELAY_MAP[p["d2"]], "fault": p["fault"], "blank": p["blank"]} for p in st["hist"]])
    os.remove(dump + ".dump")
    scripts.sort(key=lambda s: json.dumps(s, sort_keys=True))
    logs, nbad = judge_batch(ctx, "G", scripts, "g")
    ctx.sample({"mode": "G", "script": scripts[len(logs) // 3], "log_head": logs[len(logs) // 3][:6]})
    ctx.stage("G", kind="spec->code->spec", scripts=len(scripts), rejected=nbad, events=sum(len(l) for l in logs))
    ctx.exhaustive = True
    # V: random longer histories, arbitrary delays and faults
    nv = 300 if tier == "quick" else 6000
    vs = []
    for hn in range(nv):
        s = []
        clean = hn % 3 == 0                  # a third of the histories conform throughout, so alignment is judged at every position of long histories
        for _k in range(rng.randint(4, 10) if clean else rng.randint(1, 8)):
            kind = rng.choice(["cmd", "qok", "qok", "qnook", "qnook", "noport", "notext"])
            fault = "none"
            if not clean and kind in ("cmd", "qok", "qnook") and rng.random() < 0.15:
                fault = rng.choice(["wraise", "r1raise", "r2raise", "errline", "silent", "rkraise", "rkraise"] + (["rNraise"] if kind == "qok" else []))
            if clean:
                d = lambda: rng.choice([0, 0, 0, 0, 1, 1, 2, 3, 7, 50, 99, 100, 100])  # noqa: E731
            else:
                d = lambda: rng.choice([0, 0, 0, 0, 1, 1, 2, 3, 7, 50, 99, 100, 100, 101, 130])  # noqa: E731
            quiet = rng.random() < 0.3
            exc = rng.choice(["serial", "oserror"])
            if kind in ("noport", "notext"):
                s.append({"kind": kind, "d1": 0, "d2": 0, "fault": "none", "blank": False, "quiet": quiet})
            else:
                d1 = (rng.choice([1, 2, 5, 100]) if fault == "r2raise" else d()) if fault != "rNraise" else rng.choice([0, 1, 5])
                d2 = d() if kind == "qok" else 0
                # the k-th read raises: anywhere in the empty reads before the first line, at it, in the wait for OK, or at the OK itself
                rk = rng.choice([1, 2, 3, d1, d1 + 1, d1 + 2, d1 + 1 + d2, d1 + 2 + d2, rng.randint(1, 12)]) if fault == "rkraise" else 0
                s.append({"kind": kind, "d1": d1, "d2": d2, "fault": fault, "exc": exc, "rk": max(1, rk) if fault == "rkraise" else 0, "quiet": quiet,
                          "blank": fault == "none" and kind in ("qok", "qnook") and rng.random() < 0.12})
        vs.append(s)
    logs, nbad = judge_batch(ctx, "V", vs, "v")
    if logs:
        ctx.sample({"mode": "V", "script": vs[0], "log_head": logs[0][:8]})
    ctx.stage("V", kind="code->spec", histories=nv, rejected=nbad, events=sum(len(l) for l in logs))
    import legacy_extra
    legacy_extra.run_stage(ctx)          # growth beyond the list: testPort handshake and query_enable_motors decode (observations only)
    ctx.trusted += ["TLC 1.8", "harness/c07.py LegacyPort (cross-checked against LegacyOps by the desync clauses)", "vlib parser"]
    ctx.assumptions += ["a timeout is an empty read; faults are a serial I/O exception (serial.SerialException or OSError) at the write or at any read, an 'Err:' line, or silence",
                        "'writes the request' is judged on the request text without its line ending (callers terminate requests differently)",
                        "legacy board answers per the EBB documentation: data line + OK, or one line for a/i/mr/pi/qm/qg/v"]
    return ctx.finish(
        rule="G: every 2-request history of the generating LegacyLink config (kinds cmd/qok/qnook/noport/notext x delays {0,1,99,100,101} "
             "x <=1 fault of 5 kinds) replayed through ebb_serial.query/command with a scripted port and validated by LegacyTrace; "
             "V: seeded random histories of 1-8 requests; distinct = distinct scripts",
        explanation="LegacyLink.tla is the impl-shaped machine (one action per port operation, retry bound R); TLC checks NoRaise, WriteOnce, "
                    "NoOp, QueryReturnsText, ReturnsOwnLine, Aligned, EmptyWhenSilent and refutes NoRaise for the pinned un-decoded retry path; "
                    "recorded port-operation logs of the real code are judged by LegacyTrace with the same board model.")


def replay(rec):
    c = rec["case"]
    mods = _mods()
    log = run_script(mods, c["script"], c.get("tid", 0))
    ctx = vlib.Ctx("C07", "quick", 0, LEVEL, fresh=False)
    f = validate(ctx, "replay", [log])[0]
    return (not f), {"failures": f, "log": log if f else log[:4]}
