"""C08 - segment clipping. Specs: Rat, ClipOps (Abstract = exact parametric clipping; impl = Cohen-Sutherland), Clip, ClipTrace."""
import os
import random

import vlib

LEVEL = "model_checking"
# exact-in-binary affine maps v -> a*v + b (a > 0)
MAPS = [(1, 0, "int"), (1.0, 0.0, "float"), (0.125, 5.0, "x2^-3+5"), (float(2 ** 20), 0.0, "x2^20"), (3.0, -7.0, "x3-7"),
        (2.0 ** -40, 0.0, "x2^-40"),       # a tiny coordinate scale: the tolerance is relative to the scale, not absolute
        # finite coordinates whose PRODUCTS leave the double range (squares overflow above 2^512, vanish below 2^-537): "every finite segment"
        (2.0 ** 530, 0.0, "x2^530"), (2.0 ** -530, 0.0, "x2^-530"),
        # maps that are NOT exact in binary: the coordinates carry rounding noise (1e-16 relative), far below the tolerance and far below the
        # smallest non-zero miss distance of the lattice, so the class (accept / reject / free) and the inside part are unchanged - but the
        # code's own intersections no longer land exactly on the boundary (its precision failsafe is reached through these)
        (1.0 / 3.0, 0.0, "x/3"), (0.1, 0.7, "x0.1+0.7")]
VMAPS = [(0.125, 0.0, "k/8"), (1.0 / 3.0, 0.0, "k/3"), (0.1, 0.7, "0.1k+0.7"), (3.141592653589793, 0.0, "k*pi")]
REL_TOL = 1e-9


def _pu():
    from plotink import plot_utils
    return plot_utils


def rat(v):
    return v[0] / v[1]


def call(pu, seg, bounds, tuples=False, limit=2.0):
    try:
        with vlib.time_limit(limit):
            if tuples:
                acc, out = pu.clip_segment((tuple(seg[0]), tuple(seg[1])), (tuple(bounds[0]), tuple(bounds[1])))
            else:
                acc, out = pu.clip_segment([list(seg[0]), list(seg[1])], [list(bounds[0]), list(bounds[1])])
        return "ok", acc, out
    except vlib.CallTimeout:
        return "loop", None, None
    except ZeroDivisionError:
        return "divzero", None, None
    except Exception as ex:  # pylint: disable=broad-except
        return "raised:" + type(ex).__name__, None, None


def judge(abs_rec, status, acc, out, f, scale):
    """compare the observed result with TLC's abstract answer; returns None or (clause, expected, observed)"""
    cls = abs_rec["cls"]
    if status == "divzero":
        return ("clip.divides_by_zero", cls, status)
    if status == "loop":
        return ("clip.does_not_terminate", cls, status)
    if status != "ok":
        return ("clip.raises", cls, status)
    try:
        if not (acc in (0, 1)):                      # a flag is judged by its truth value (0/1, numpy.bool_ and bool are all flags)
            return ("clip.accept_flag_type", "a flag", repr(acc))
        acc = bool(acc)
    except Exception:  # pylint: disable=broad-except
        return ("clip.accept_flag_type", "a flag", repr(acc))
    if cls == "accept" and not acc:
        return ("clip.rejects_segment_with_inside_part", "accept", "reject")
    if cls == "reject":
        return ("clip.accepts_segment_with_no_inside_part", "reject", [acc, out]) if acc else None
    if not acc:
        return None                       # free: a single touching point may be rejected
    want = [[f(rat(p[0])), f(rat(p[1]))] for p in abs_rec["p"]]
    tol = REL_TOL * scale
    try:
        got = [[float(out[0][0]), float(out[0][1])], [float(out[1][0]), float(out[1][1])]]
    except Exception:  # pylint: disable=broad-except
        return ("clip.result_shape", want, repr(out))
    for k in (0, 1):
        for c in (0, 1):
            if not abs(got[k][c] - want[k][c]) <= tol:
                return ("clip.result_is_inside_part" if cls == "accept" else "clip.touch_point", want, got)
    return None


def corner_stage(ctx, pu, rng, ncand, nsample):
    """segments aimed from outside THROUGH a corner into the interior, under inexact maps: the code's intersection with the first boundary lands
    a rounding error away from the second, which is where its precision failsafe (and a loop without it) lives. All candidates are run; every
    one whose observed outcome is unusual (not accepted, not returned, an end point not inside the rectangle) and a sample of the rest go to TLC."""
    unusual, rest = [], []
    loops = 0
    for _ in range(ncand):
        S = rng.choice([4, 16, 128])
        xmin = rng.randint(-S, S - 1)
        xmax = rng.randint(xmin + 1, S)
        ymin = rng.randint(-S, S - 1)
        ymax = rng.randint(ymin + 1, S)
        sx, sy = rng.choice([1, -1]), rng.choice([1, -1])
        cx, cy = (xmin if sx > 0 else xmax), (ymin if sy > 0 else ymax)
        x1, y1 = cx - sx * rng.randint(1, S), cy - sy * rng.randint(1, S)
        for m in (rng.choice([2, 3, 4, 5]), 2):
            x2, y2 = x1 + m * (cx - x1), y1 + m * (cy - y1)
            if max(abs(x2), abs(y2)) <= 128:
                break
        if max(abs(x1), abs(y1), abs(x2), abs(y2)) > 128:
            continue
        if rng.random() < 0.5:
            x1, y1, x2, y2 = x2, y2, x1, y1
        e = {"x1": x1, "y1": y1, "x2": x2, "y2": y2, "xmin": xmin, "ymin": ymin, "xmax": xmax, "ymax": ymax, "vmap": rng.randint(1, len(VMAPS) - 1)}
        va, vb, _nm = VMAPS[e["vmap"]]
        f = lambda v, va=va, vb=vb: va * v + vb  # noqa: E731
        seg, bnd = [[f(x1), f(y1)], [f(x2), f(y2)]], [[f(xmin), f(ymin)], [f(xmax), f(ymax)]]
        status, acc, out = call(pu, seg, bnd, limit=0.25 if loops < 3 else 0.02)
        if status == "loop":
            status, acc, out = call(pu, seg, bnd, limit=2.0 if loops < 3 else 0.5)      # wall-clock limits: confirm with a generous one before calling it a loop
        loops += status == "loop"
        odd = status != "ok" or acc is not True
        if not odd:
            try:
                odd = not all(bnd[0][0] <= p[0] <= bnd[1][0] and bnd[0][1] <= p[1] <= bnd[1][1] for p in out)
            except Exception:  # pylint: disable=broad-except
                odd = True
        (unusual if odd else rest).append((e, status, acc, out))
    chosen = unusual[:600] + rest[:nsample]
    evs = [c[0] for c in chosen]
    verdicts, stats = vlib.judge_events(os.path.join(ctx.workdir, "vcorner"), "ClipTrace", "ClipTrace.cfg", evs)
    ctx.states += stats["distinct"]
    ctx.transitions += stats["generated"]
    rej = 0
    for (e, status, acc, out), ab in zip(chosen, verdicts):
        va, vb, vname = VMAPS[e["vmap"]]
        f = lambda v, va=va, vb=vb: va * v + vb  # noqa: E731
        vals = [e[k] for k in ("x1", "y1", "x2", "y2", "xmin", "ymin", "xmax", "ymax")]
        if ab["cls"] != "accept":
            raise vlib.MachineryError("corner construction is not of class accept: %r" % (e,))
        ctx.count(("Vc", tuple(vals), vname))
        bad = judge(ab, status, acc, out, f, max(abs(f(v)) for v in vals))
        if bad:
            rej += 1
            ctx.violation(bad[0], {"mode": "V", "in": vals, "map": [va, vb], "class": ab["cls"], "stage": "corner"}, bad[1], bad[2])
            if ctx.enough(25):
                break
    ctx.traces += len(chosen)
    ctx.stage("V-corner", kind="code->spec", candidates_run=len(unusual) + len(rest), unusual_outcomes=len(unusual), judged=len(chosen), rejected=rej,
              note="unusual = not accepted / did not return / an end point a rounding error outside the rectangle (the failsafe's signature)")


def run(ctx):
    pu = _pu()
    tier = ctx.tier
    dump = os.path.join(ctx.workdir, "e1", "states")
    ctx.run_tlc("e1", "Clip", "Clip_%s.cfg" % tier, dump=dump, coverage=True)
    ctx.run_tlc("e1.liveness", "Clip", "Clip_live.cfg")          # under weak fairness every instance reaches accept / reject (no input loops)
    n = 0
    classes = {"accept": 0, "reject": 0, "free": 0}
    for st in vlib.read_dump(dump + ".dump", only={"in", "pc", "abs", "iter"}, prefilter='pc = "'):
        if st["pc"] == "run":
            continue
        n += 1
        x1, y1, x2, y2, xmin, ymin, xmax, ymax = st["in"]
        classes[st["abs"]["cls"]] += 1
        for a, b, mname in MAPS:
            f = lambda v: a * v + b  # noqa: E731
            seg = [[f(x1), f(y1)], [f(x2), f(y2)]]
            bnd = [[f(xmin), f(ymin)], [f(xmax), f(ymax)]]
            scale = max(abs(f(v)) for v in st["in"])
            status, acc, out = call(pu, seg, bnd, tuples=(n % 3 == 0))
            ctx.count((tuple(st["in"]), mname))
            bad = judge(st["abs"], status, acc, out, f, scale)
            if bad:
                ctx.violation(bad[0], {"mode": "G", "in": st["in"], "map": [a, b], "class": st["abs"]["cls"]}, bad[1], bad[2])
            elif mname == "int" and st["abs"]["cls"] != "free" and (acc is True) != (st["pc"] == "accept"):
                ctx.note_drift("verdict differs from the impl-shaped machine", st["in"])
        if n % 4999 == 1:
            ctx.sample({"mode": "G", "segment": [[x1, y1], [x2, y2]], "rect": [[xmin, ymin], [xmax, ymax]], "abstract": st["abs"]["cls"],
                        "clips_in_model": st["iter"]})
    os.remove(dump + ".dump")
    ctx.traces += n
    ctx.stage("G", kind="spec->code", vectors=n, classes=classes, maps=[m[2] for m in MAPS])
    ctx.exhaustive = True
    # V: dyadic lattice k/8, |k| <= 128
    rng = random.Random(ctx.seed * 7907 + 8)
    nev = 6000 if tier == "quick" else 200000
    evs = []
    for _ in range(nev):
        S = rng.choice([4, 16, 128])
        r = lambda: rng.randint(-S, S)  # noqa: E731
        xmin, xmax = sorted((r(), r()))
        ymin, ymax = sorted((r(), r()))
        k = rng.random()
        if k < 0.1:
            xmax = xmin
        elif k < 0.2:
            ymax = ymin
        x1, y1, x2, y2 = r(), r(), r(), r()
        k = rng.random()
        if k < 0.15:      # aim at a corner / edge
            x2, y2 = rng.choice([xmin, xmax]), rng.choice([ymin, ymax])
        elif k < 0.25:
            x2 = x1
        elif k < 0.35:
            y2 = y1
        elif k < 0.4:
            x2, y2 = x1, y1
        elif k < 0.6:     # pass through a corner and go on: P2 = P1 + m*(corner - P1) (if on lattice)
            cx, cy = rng.choice([xmin, xmax]), rng.choice([ymin, ymax])
            m = rng.choice([2, 2, 3, 4, 5])
            x2, y2 = x1 + m * (cx - x1), y1 + m * (cy - y1)
            if abs(x2) > 128 or abs(y2) > 128:
                x2, y2 = 2 * cx - x1, 2 * cy - y1
            if abs(x2) > 128 or abs(y2) > 128:
                x2, y2 = cx, cy
        evs.append({"x1": x1, "y1": y1, "x2": x2, "y2": y2, "xmin": xmin, "ymin": ymin, "xmax": xmax, "ymax": ymax, "vmap": rng.randrange(len(VMAPS))})
    verdicts, stats = vlib.judge_events(os.path.join(ctx.workdir, "v"), "ClipTrace", "ClipTrace.cfg", evs)
    ctx.states += stats["distinct"]
    ctx.transitions += stats["generated"]
    rej = 0
    for e, ab in zip(evs, verdicts):
        if ab["cls"] == "skip":
            ctx.skipped += 1
            continue
        va, vb, vname = VMAPS[e["vmap"]]
        f = lambda v, va=va, vb=vb: va * v + vb  # noqa: E731
        vals = [e[k] for k in ("x1", "y1", "x2", "y2", "xmin", "ymin", "xmax", "ymax")]
        status, acc, out = call(pu, [[f(e["x1"]), f(e["y1"])], [f(e["x2"]), f(e["y2"])]], [[f(e["xmin"]), f(e["ymin"])], [f(e["xmax"]), f(e["ymax"])]])
        ctx.count(("V", tuple(vals), vname))
        classes[ab["cls"]] += 1
        bad = judge(ab, status, acc, out, f, max(abs(f(v)) for v in vals))
        if bad:
            rej += 1
            ctx.violation(bad[0], {"mode": "V", "in": vals, "map": [va, vb], "class": ab["cls"]}, bad[1], bad[2])
    ctx.traces += len(evs)
    corner_stage(ctx, pu, rng, 60000 if tier == "quick" else 1500000, 1500 if tier == "quick" else 40000)
    ctx.sample({"mode": "V", "event": evs[0], "abstract": verdicts[0]["cls"]})
    ctx.stage("V", kind="code->spec", events=len(evs), rejected=rej, classes_total=classes)
    ctx.trusted += ["TLC 1.8", "Rat.tla", "harness comparison of floats with TLC's exact rationals (|diff| <= 1e-9 * coordinate scale)", "vlib TLA value parser"]
    ctx.assumptions += ["inputs are integer lattice points (|k|<=128 in V) mapped through affine maps, exact ones and inexact ones (x/3, 0.1x+0.7, x*pi) whose rounding noise is "
                        "far below both the tolerance and the lattice's smallest non-zero miss distance; arbitrary doubles are not drawn",
                        "when the exact inside part is a single point of a proper segment (graze/touch) either verdict is allowed (tolerance band)"]
    return ctx.finish(
        rule="G: every (segment, rectangle) of the lattice (rect corners 0..2|3 incl. zero-area, segment ends -1..3|4) x 8 affine maps (2 inexact); V: random lattice "
             "cases with corner/edge aiming and through-corner segments under 4 maps (3 inexact: the precision failsafe is reached); distinct = distinct (inputs, map)",
        explanation="TLC checks on the whole lattice that Cohen-Sutherland as coded (one boundary per step, slope formula, failsafe) never divides by zero, stops "
                    "within 4 clips and returns exactly the parametric inside part with orientation kept; the real clip_segment is judged against the abstract "
                    "answer carried by each TLC state / computed by TLC for each recorded call.")


def replay(rec):
    pu = _pu()
    c = rec["case"]
    e = dict(zip(("x1", "y1", "x2", "y2", "xmin", "ymin", "xmax", "ymax"), c["in"]))
    ctx = vlib.Ctx("C08", "quick", 0, LEVEL, fresh=False)
    verdicts, _ = vlib.judge_events(os.path.join(ctx.workdir, "replay"), "ClipTrace", "ClipTrace.cfg", [e])
    a, b = c["map"]
    f = lambda v: a * v + b  # noqa: E731
    status, acc, out = call(pu, [[f(e["x1"]), f(e["y1"])], [f(e["x2"]), f(e["y2"])]], [[f(e["xmin"]), f(e["ymin"])], [f(e["xmax"]), f(e["ymax"])]])
    bad = judge(verdicts[0], status, acc, out, f, max(abs(f(v)) for v in c["in"]))
    return bad is None, {"abstract": verdicts[0]["cls"], "status": status, "accept": acc, "out": out, "mismatch": bad}
