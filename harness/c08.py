"""C08 - segment clipping. Specs: Rat, ClipOps (Abstract = exact parametric clipping; impl = Cohen-Sutherland), Clip, ClipTrace."""
import os
import random

import vlib

LEVEL = "model_checking"
# exact-in-binary affine maps v -> a*v + b (a > 0)
MAPS = [(1, 0, "int"), (1.0, 0.0, "float"), (0.125, 5.0, "x2^-3+5"), (float(2 ** 20), 0.0, "x2^20"), (3.0, -7.0, "x3-7"),
        (2.0 ** -40, 0.0, "x2^-40")]       # a tiny coordinate scale: the tolerance is relative to the scale, not absolute
REL_TOL = 1e-9


def _pu():
    from plotink import plot_utils
    return plot_utils


def rat(v):
    return v[0] / v[1]


def call(pu, seg, bounds):
    try:
        with vlib.time_limit(2.0):
            acc, out = pu.clip_segment([list(seg[0]), list(seg[1])], [list(bounds[0]), list(bounds[1])])
        return "ok", acc, out
    except vlib.CallTimeout:
        return "loop", None, None
    except ZeroDivisionError:
        return "divzero", None, None
    except Exception as ex:  # pylint: disable=broad-except
        return "raised:" + type(ex).__name__, None, None


def judge(abs_rec, status, acc, out, f, scale):
    """compare the observed result with TLC's abstract answer; returns None or (clause, expected, observed)"""
    cls = abs_rec["cls"]
    if status == "divzero":
        return ("clip.divides_by_zero", cls, status)
    if status == "loop":
        return ("clip.does_not_terminate", cls, status)
    if status != "ok":
        return ("clip.raises", cls, status)
    if not isinstance(acc, bool):
        return ("clip.accept_flag_type", "bool", repr(acc))
    if cls == "accept" and not acc:
        return ("clip.rejects_segment_with_inside_part", "accept", "reject")
    if cls == "reject":
        return ("clip.accepts_segment_with_no_inside_part", "reject", [acc, out]) if acc else None
    if not acc:
        return None                       # free: a single touching point may be rejected
    want = [[f(rat(p[0])), f(rat(p[1]))] for p in abs_rec["p"]]
    tol = REL_TOL * scale
    try:
        got = [[float(out[0][0]), float(out[0][1])], [float(out[1][0]), float(out[1][1])]]
    except Exception:  # pylint: disable=broad-except
        return ("clip.result_shape", want, repr(out))
    for k in (0, 1):
        for c in (0, 1):
            if not abs(got[k][c] - want[k][c]) <= tol:
                return ("clip.result_is_inside_part" if cls == "accept" else "clip.touch_point", want, got)
    return None


def run(ctx):
    pu = _pu()
    tier = ctx.tier
    dump = os.path.join(ctx.workdir, "e1", "states")
    ctx.run_tlc("e1", "Clip", "Clip_%s.cfg" % tier, dump=dump, coverage=True)
    n = 0
    classes = {"accept": 0, "reject": 0, "free": 0}
    for st in vlib.read_dump(dump + ".dump", only={"in", "pc", "abs", "iter"}, prefilter='pc = "'):
        if st["pc"] == "run":
            continue
        n += 1
        x1, y1, x2, y2, xmin, ymin, xmax, ymax = st["in"]
        classes[st["abs"]["cls"]] += 1
        for a, b, mname in MAPS:
            f = lambda v: a * v + b  # noqa: E731
            seg = [[f(x1), f(y1)], [f(x2), f(y2)]]
            bnd = [[f(xmin), f(ymin)], [f(xmax), f(ymax)]]
            scale = max(abs(f(v)) for v in st["in"])
            status, acc, out = call(pu, seg, bnd)
            ctx.count((tuple(st["in"]), mname))
            bad = judge(st["abs"], status, acc, out, f, scale)
            if bad:
                ctx.violation(bad[0], {"mode": "G", "in": st["in"], "map": [a, b], "class": st["abs"]["cls"]}, bad[1], bad[2])
            elif mname == "int" and st["abs"]["cls"] != "free" and (acc is True) != (st["pc"] == "accept"):
                ctx.note_drift("verdict differs from the impl-shaped machine", st["in"])
        if n % 4999 == 1:
            ctx.sample({"mode": "G", "segment": [[x1, y1], [x2, y2]], "rect": [[xmin, ymin], [xmax, ymax]], "abstract": st["abs"]["cls"],
                        "clips_in_model": st["iter"]})
    os.remove(dump + ".dump")
    ctx.traces += n
    ctx.stage("G", kind="spec->code", vectors=n, classes=classes, maps=[m[2] for m in MAPS])
    ctx.exhaustive = True
    # V: dyadic lattice k/8, |k| <= 128
    rng = random.Random(ctx.seed * 7907 + 8)
    nev = 6000 if tier == "quick" else 200000
    evs = []
    for _ in range(nev):
        S = rng.choice([4, 16, 128])
        r = lambda: rng.randint(-S, S)  # noqa: E731
        xmin, xmax = sorted((r(), r()))
        ymin, ymax = sorted((r(), r()))
        k = rng.random()
        if k < 0.1:
            xmax = xmin
        elif k < 0.2:
            ymax = ymin
        x1, y1, x2, y2 = r(), r(), r(), r()
        k = rng.random()
        if k < 0.15:      # aim at a corner / edge
            x2, y2 = rng.choice([xmin, xmax]), rng.choice([ymin, ymax])
        elif k < 0.25:
            x2 = x1
        elif k < 0.35:
            y2 = y1
        elif k < 0.4:
            x2, y2 = x1, y1
        elif k < 0.5:     # pass through a corner: P2 = 2*corner - P1 (if on lattice)
            cx, cy = rng.choice([xmin, xmax]), rng.choice([ymin, ymax])
            x2, y2 = 2 * cx - x1, 2 * cy - y1
            if abs(x2) > 128 or abs(y2) > 128:
                x2, y2 = cx, cy
        evs.append({"x1": x1, "y1": y1, "x2": x2, "y2": y2, "xmin": xmin, "ymin": ymin, "xmax": xmax, "ymax": ymax})
    verdicts, stats = vlib.judge_events(os.path.join(ctx.workdir, "v"), "ClipTrace", "ClipTrace.cfg", evs)
    ctx.states += stats["distinct"]
    ctx.transitions += stats["generated"]
    f = lambda v: v / 8.0  # noqa: E731
    rej = 0
    for e, ab in zip(evs, verdicts):
        if ab["cls"] == "skip":
            ctx.skipped += 1
            continue
        vals = [e[k] for k in ("x1", "y1", "x2", "y2", "xmin", "ymin", "xmax", "ymax")]
        status, acc, out = call(pu, [[f(e["x1"]), f(e["y1"])], [f(e["x2"]), f(e["y2"])]], [[f(e["xmin"]), f(e["ymin"])], [f(e["xmax"]), f(e["ymax"])]])
        ctx.count(("V", tuple(vals)))
        classes[ab["cls"]] += 1
        bad = judge(ab, status, acc, out, f, max(abs(f(v)) for v in vals))
        if bad:
            rej += 1
            ctx.violation(bad[0], {"mode": "V", "in": vals, "map": [0.125, 0.0], "class": ab["cls"]}, bad[1], bad[2])
    ctx.traces += len(evs)
    ctx.sample({"mode": "V", "event": evs[0], "abstract": verdicts[0]["cls"]})
    ctx.stage("V", kind="code->spec", events=len(evs), rejected=rej, classes_total=classes)
    ctx.trusted += ["TLC 1.8", "Rat.tla", "harness comparison of floats with TLC's exact rationals (|diff| <= 1e-9 * coordinate scale)", "vlib TLA value parser"]
    ctx.assumptions += ["inputs are integer lattice points mapped through exact affine maps (and k/8, |k|<=128 in V); rounding on arbitrary doubles is not modelled",
                        "when the exact inside part is a single point of a proper segment (graze/touch) either verdict is allowed (tolerance band)"]
    return ctx.finish(
        rule="G: every (segment, rectangle) of the lattice (rect corners 0..2|3 incl. zero-area, segment ends -1..3|4) x 5 affine maps; V: random dyadic-lattice "
             "cases with corner/edge aiming; distinct = distinct (inputs, map)",
        explanation="TLC checks on the whole lattice that Cohen-Sutherland as coded (one boundary per step, slope formula, failsafe) never divides by zero, stops "
                    "within 4 clips and returns exactly the parametric inside part with orientation kept; the real clip_segment is judged against the abstract "
                    "answer carried by each TLC state / computed by TLC for each recorded call.")


def replay(rec):
    pu = _pu()
    c = rec["case"]
    e = dict(zip(("x1", "y1", "x2", "y2", "xmin", "ymin", "xmax", "ymax"), c["in"]))
    ctx = vlib.Ctx("C08", "quick", 0, LEVEL, fresh=False)
    verdicts, _ = vlib.judge_events(os.path.join(ctx.workdir, "replay"), "ClipTrace", "ClipTrace.cfg", [e])
    a, b = c["map"]
    f = lambda v: a * v + b  # noqa: E731
    status, acc, out = call(pu, [[f(e["x1"]), f(e["y1"])], [f(e["x2"]), f(e["y2"])]], [[f(e["xmin"]), f(e["ymin"])], [f(e["xmax"]), f(e["ymax"])]])
    bad = judge(verdicts[0], status, acc, out, f, max(abs(f(v)) for v in c["in"]))
    return bad is None, {"abstract": verdicts[0]["cls"], "status": status, "accept": acc, "out": out, "mismatch": bad}
