"""C09 - vertex reduction. Specs: SimplifyOps (Reduced / InTol / unrolled predicate), Simplify (index walk), SimplifyTrace."""
import math
import os
import random

import vlib

LEVEL = "model_checking"
MAPS = [(1, 0, "int"), (1.0, 0.0, "float"), (0.25, -3.0, "x2^-2-3"), (1024.0, 7.0, "x2^10+7"), (1.0, 4294967296.0, "+2^32")]      # powers of two: exact ties stay exact; +2^32: coordinates huge relative to the tolerance (differences stay exact)


def _pu():
    from plotink import plot_utils
    return plot_utils


def tol_value(sg, tn, td, a):
    return sg * a * math.sqrt(tn / td) if sg else 0.0


def run_ss(pu, pts, sg, tn, td, a=1, b=0, tuples=False):
    """returns the 'ss' event for one supersample call on fresh vertex objects (lists, or tuples: a vertex is any xy pair)"""
    verts = [((a * x + b, a * y + b) if tuples else [a * x + b, a * y + b]) for x, y in pts]
    ids = {id(v): k + 1 for k, v in enumerate(verts)}
    work = list(verts)
    try:
        with vlib.time_limit(5.0):
            pu.supersample(work, tol_value(sg, tn, td, a))
        status = "ok"
    except vlib.CallTimeout:
        status = "loop"
    except Exception as ex:  # pylint: disable=broad-except
        status = "raised:" + type(ex).__name__
    ident = all(id(v) in ids for v in work)
    unchanged = all(list(verts[k]) == [a * pts[k][0] + b, a * pts[k][1] + b] for k in range(len(pts)))
    kept = [ids[id(v)] for v in work] if ident else []
    return {"k": "ss", "pts": [list(p) for p in pts], "sg": sg, "tn": tn, "td": td, "kept": kept, "ident": ident and unchanged,
            "status": status}


def run_pit(pu, pts, sg, tn, td, a=1, b=0):
    verts = [(a * x + b, a * y + b) for x, y in pts]
    tol = tol_value(sg, tn, td, a)
    pit = pu.points_in_tolerance(verts, tol)
    ref = pu.max_dist_from_n_points(verts) < tol
    return {"k": "pit", "pts": [list(p) for p in pts], "sg": sg, "tn": tn, "td": td, "pit": bool(pit), "ref": bool(ref)}


def judge(ctx, name, evs):
    vs, stats = vlib.judge_events(os.path.join(ctx.workdir, name), "SimplifyTrace", "SimplifyTrace.cfg", evs, chunk=5000)
    ctx.states += stats["distinct"]
    ctx.transitions += stats["generated"]
    if any(v in ("badevent", "init") for v in vs):
        raise vlib.MachineryError("SimplifyTrace: bad event")
    return vs


def run(ctx):
    pu = _pu()
    tier = ctx.tier
    dump = os.path.join(ctx.workdir, "e1", "states")
    ctx.run_tlc("e1", "SimplifyMC", "Simplify_%s.cfg" % tier, dump=dump, coverage=True)
    ctx.run_tlc("e1.liveness", "SimplifyMC", "Simplify_live.cfg")          # the index walk terminates
    n = 0
    tojudge = []
    pit_evs = []
    for st in vlib.read_dump(dump + ".dump", only={"vs", "tol", "cur", "pc"}, prefilter='pc = "done"'):
        n += 1
        pts, (sg, tn, td), walk = st["vs"], st["tol"], st["cur"]
        for a, b, mname in MAPS:
            e = run_ss(pu, pts, sg, tn, td, a, b, tuples=(n % 4 == 0))
            ctx.count((tuple(map(tuple, pts)), sg, tn, mname))
            if e["status"] != "ok":
                ctx.violation("simplify.terminates_without_error", {"mode": "G", "pts": pts, "tol": [sg, tn, td], "map": [a, b]}, "returns", e["status"])
            elif e["ident"] and e["kept"] == walk:
                pass                               # equals the walk, which TLC proved Reduced
            else:
                e["map"] = [a, b]
                tojudge.append(e)
                if len(ctx.drift) < 5:
                    ctx.note_drift("supersample keeps other vertices than the transcribed walk (judged by Reduced alone)", {"pts": pts, "kept": e["kept"], "walk": walk})
        if len(pts) >= 3 and sg > 0 and (n % 3 == 0 or len(pit_evs) < 3000):
            a, b, _ = MAPS[n % len(MAPS)]
            pe = run_pit(pu, pts, sg, tn, td, a, b)
            pe["map"] = [a, b]
            pit_evs.append(pe)
        if n % 7919 == 1:
            ctx.sample({"mode": "G", "vertices": pts, "tolerance_squared": "%d/%d" % (tn, td), "sign": sg, "walk_keeps": walk})
    os.remove(dump + ".dump")
    ctx.traces += n
    ctx.stage("G", kind="spec->code", vectors=n, results_differing_from_walk=len(tojudge), predicate_vectors=len(pit_evs))
    ctx.exhaustive = True
    evs = tojudge + pit_evs
    # the empty list: nothing to delete, nothing to raise about
    e0 = run_ss(pu, [], 1, 3, 7)
    e0["mode"] = "V"
    evs.append(e0)
    # V: longer random lists on a 21x21 lattice
    rng = random.Random(ctx.seed * 104729 + 9)
    nv = 2500 if tier == "quick" else 60000
    for _ in range(nv):
        L = rng.choice([3, 4, 5, 6, 8, 12, 20, 40])
        S = rng.choice([2, 4, 10, 20])
        pts = []
        x, y = rng.randint(0, S), rng.randint(0, S)
        for _k in range(L):
            m = rng.random()
            if m < 0.15 and pts:
                pass                                           # repeated point
            elif m < 0.4 and len(pts) >= 2:                     # continue / reverse along the last direction
                dx, dy = pts[-1][0] - pts[-2][0], pts[-1][1] - pts[-2][1]
                s = rng.choice([1, 1, -1, 2])
                x, y = min(S, max(0, x + s * dx)), min(S, max(0, y + s * dy))
            elif m < 0.5 and pts:
                x, y = pts[0]                                  # close the loop
            else:
                x, y = rng.randint(0, S), rng.randint(0, S)
            pts.append([x, y])
        if rng.random() < 0.012:
            # a long run of removable vertices (70-160 on one line, some repeated) followed by an excursion far outside any tolerance
            # (sizes chosen so that the judge's squared cross products stay inside TLC's 32-bit integers even when everything is deleted)
            n_run = rng.randint(70, 90)
            dx, dy = rng.choice([(1, 0), (0, 1), (1, 1)])
            pts = [[k * dx, k * dy] for k in range(n_run)]
            px, py = pts[-1]
            pts += [[px - 20 * dy + dx, py + 20 * dx + dy], [px + 2 * dx, py + 2 * dy]] + [[px + (3 + k) * dx, py + (3 + k) * dy] for k in range(rng.randint(0, 3))]
            L = len(pts)
        sg = rng.choice([1, 1, 1, 1, 1, 1, 0, -1])
        tn = rng.choice([1, 3, 5, 11, 23, 47, 95, 200, 450, 1500])
        td = 7
        if rng.random() < 0.25:
            tn, td = rng.choice([1, 4, 9, 25, 100]), 1           # exact tolerances 1, 2, 3, 5, 10: ties are possible and must be kept
        a, b, _ = rng.choice(MAPS)
        e = run_ss(pu, pts, sg, tn, td, a, b)
        e["map"] = [a, b]
        e["mode"] = "V"
        evs.append(e)
        if rng.random() < 0.5:
            k0 = rng.randint(0, L - 3)
            sub = pts[k0:k0 + rng.randint(3, min(8, L - k0))]
            pe = run_pit(pu, sub, 1, tn, td, a, b)
            pe["map"] = [a, b]
            pe["mode"] = "V"
            evs.append(pe)
    vs = judge(ctx, "v", evs)
    rej = 0
    for e, v in zip(evs, vs):
        if e.get("mode") == "V":
            ctx.count(("V", e["k"], tuple(map(tuple, e["pts"])), e["sg"], e["tn"]))
        if v == "skip":
            ctx.skipped += 1
        elif e.get("status", "ok") != "ok":
            rej += 1
            ctx.violation("simplify.terminates_without_error", {"mode": e.get("mode", "G"), "event": e}, "returns", e["status"])
        elif v != "ok":
            rej += 1
            ctx.violation(v, {"mode": e.get("mode", "G"), "event": e}, "ok", v)
    ctx.traces += nv
    ctx.sample({"mode": "V", "event": next(e for e in evs if e.get("mode") == "V")})
    ctx.stage("V", kind="code->spec", events=len(evs), rejected=rej)
    ctx.trusted += ["TLC 1.8", "harness identity bookkeeping (id() of vertex objects)", "tolerances with squared value a/7 are tie-free; the exact tolerances 1, 2, 3, 5, 10 allow exact ties (a vertex exactly at the tolerance is kept)", "vlib TLA value parser"]
    ctx.assumptions += ["vertices are integer lattice points mapped through exact affine maps (lists, every fourth call tuples)",
                        "float rounding on arbitrary coordinates is not modelled"]
    return ctx.finish(
        rule="G: every vertex list of length <= 4|5 on the 3x3 lattice x tolerances (positive, zero, negative) x 4 affine maps through supersample, results "
             "identical to the TLC walk pass, others are judged by TLC (Reduced); predicate vectors through points_in_tolerance and max_dist_from_n_points; "
             "V: random lists up to 40 vertices (repeats, collinear runs, reversals, closed loops); distinct = distinct (list, tolerance, map)",
        explanation="TLC checks on the complete universe that the supersample index walk leaves a list satisfying the abstract Reduced statement, that the unrolled "
                    "predicate equals the abstract distance test wherever the walk asks, and that the walk never builds a slice without interior points; "
                    "the real functions are judged by Reduced / AllInTol only.")


def replay(rec):
    pu = _pu()
    e = rec["case"]["event"] if "event" in rec["case"] else None
    if e is None:
        c = rec["case"]
        e = {"k": "ss", "pts": c["pts"], "sg": c["tol"][0], "tn": c["tol"][1], "td": c["tol"][2], "map": c["map"]}
    a, b = e.get("map", [1, 0])
    if e["k"] == "ss":
        e2 = run_ss(pu, e["pts"], e["sg"], e["tn"], e["td"], a, b)
    else:
        e2 = run_pit(pu, e["pts"], e["sg"], e["tn"], e["td"], a, b)
    ctx = vlib.Ctx("C09", "quick", 0, LEVEL, fresh=False)
    v = judge(ctx, "replay", [e2])[0]
    ok = v in ("ok", "skip") and e2.get("status", "ok") == "ok"
    return ok, {"verdict": v, "event": e2}
