"""C10 - Bezier subdivision. Specs: BezierOps (SameCurve via dyadic matching, Flat in BigInt), Bezier (index walk), BezierTrace."""
import math
import os
import random

import vlib

LEVEL = "model_checking"
SC = 4096                     # 8^D, D = 4
MAPS = [(1.0, 0.0, "float"), (0.5, 3.0, "x0.5+3"), (8.0, -1.0, "x8-1"), (1, 0, "int")]
NODE_CAP = 20000
LOOPS = [0]


def _pu():
    from plotink import plot_utils
    return plot_utils


SC7 = 8 ** 7                  # the deep V stage: D = 7


def assignments(inn, out, cap=12):
    """all order-preserving ways to find the input nodes' points among the output nodes (more than one only when points coincide)"""
    res = []

    def rec(k, at, acc):
        if len(res) >= cap:
            return
        if k == len(inn):
            res.append(list(acc))
            return
        for p in range(at, len(out)):
            if out[p][1] == list(inn[k][1]):
                rec(k + 1, p + 1, acc + [p + 1])
    rec(0, 0, [])
    return res


def run_sub(pu, inn, tn, td, a=1.0, b=0.0, SC=SC):                 # pylint: disable=redefined-outer-name
    """inn: nodes in SCALED lattice integers. Runs subdivideCubicPath on a*(v/SC)+b floats; returns the event."""
    f = lambda v: a * (v / SC) + b if not isinstance(a, int) or v % SC else a * (v // SC) + b  # noqa: E731
    nodes = [[[f(h[0]), f(h[1])] for h in nd] for nd in inn]
    ids = {id(nd): k for k, nd in enumerate(nodes)}
    flat = a * math.sqrt(tn / td)
    status = "ok"
    try:
        with vlib.time_limit(3.0 if LOOPS[0] < 5 else 0.25):
            pu.subdivideCubicPath(nodes, flat)
    except vlib.CallTimeout:
        status = "loop"
        LOOPS[0] += 1
        if LOOPS[0] <= 8:
            # wall-clock limits: confirm with a generous one, on a fresh copy, before calling it a loop
            nodes2 = [[[f(h[0]), f(h[1])] for h in nd] for nd in inn]
            try:
                with vlib.time_limit(10.0):
                    pu.subdivideCubicPath(nodes2, flat)
                if len(nodes2) <= NODE_CAP:
                    status, nodes, ids = "ok", nodes2, {id(nd): k for k, nd in enumerate(nodes2)}
                    LOOPS[0] -= 1
            except vlib.CallTimeout:
                pass
            except Exception as ex:  # pylint: disable=broad-except
                status = "raised:" + type(ex).__name__
    except Exception as ex:  # pylint: disable=broad-except
        status = "raised:" + type(ex).__name__
    if len(nodes) > NODE_CAP:
        status = "loop"
    ev = {"inn": inn, "tn": tn, "td": td, "status": status, "map": [a, b], "integral": True, "deeper": False, "out": [], "orig": [], "sc": SC}
    if status != "ok":
        return ev
    out = []
    pos = {}
    for k, nd in enumerate(nodes):
        if id(nd) in ids:
            pos[ids[id(nd)]] = k + 1
        row = []
        for h in nd:
            pt = []
            for c in (h[0], h[1]):
                s = (c - b) / a * SC
                if s != int(s) or abs(s) > 2 ** 30:
                    if math.isfinite(s) and abs(s) <= 2 ** 30 and (s * 2.0 ** 40) == int(s * 2.0 ** 40):
                        ev["deeper"] = True           # a dyadic number finer than D halvings give: more levels than the scaling supports
                    else:
                        ev["integral"] = False
                    s = 0
                pt.append(int(s))
            row.append(pt)
        out.append(row)
    ev["out"] = out
    if len(pos) < len(inn):
        # node objects were replaced rather than edited in place: identify the original nodes by their (unchanged) points, in order
        alts = assignments(inn, out)
        ev["alts"] = alts[1:]                       # coincident points make the identification ambiguous: any consistent one may be meant
        pos = {k: p for k, p in enumerate(alts[0])} if alts else {}
    ev["orig"] = [pos.get(k, 0) for k in range(len(inn))]
    return ev


def judge(ctx, name, evs, cfg="BezierTrace.cfg"):
    keys = ("inn", "out", "orig", "tn", "td", "integral", "deeper")
    slim, owner = [], []
    for n, e in enumerate(evs):
        for orig in [e["orig"]] + e.get("alts", []):
            slim.append(dict({k: e[k] for k in keys}, orig=orig))
            owner.append(n)
    raw, stats = vlib.judge_events(os.path.join(ctx.workdir, name), "BezierTrace", cfg, slim, chunk=1500)
    ctx.states += stats["distinct"]
    ctx.transitions += stats["generated"]
    vs = [None] * len(evs)
    for n, v in zip(owner, raw):                   # the best verdict over the candidate identifications: ok > skip > the first clause
        cur = vs[n]
        if cur is None or v == "ok" or (v == "skip" and cur != "ok"):
            vs[n] = v if cur != "ok" else cur
    return vs


def run(ctx):
    pu = _pu()
    tier = ctx.tier
    cfgs = ["Bezier_quick.cfg"] if tier == "quick" else ["Bezier_thorough.cfg", "Bezier_two.cfg"]
    tojudge = []
    n = 0
    if tier == "thorough":
        ctx.run_tlc("e1.liveness", "BezierMC", "Bezier_live.cfg")          # subdivision terminates on every instance of the universe
    for ci, cfg in enumerate(cfgs):
        dump = os.path.join(ctx.workdir, "e1_%d" % ci, "states")
        ctx.run_tlc("e1_%d" % ci, "BezierMC", cfg, dump=dump, coverage=(ci == 0))
        for st in vlib.read_dump(dump + ".dump", only={"inn", "tol", "sp", "orig", "pc"}, prefilter='pc = "done"'):
            n += 1
            inn, (tn, td), walk = st["inn"], st["tol"], st["sp"]
            a, b, mname = MAPS[n % len(MAPS)] if tier == "quick" else MAPS[n % 3]
            for (aa, bb, mn) in ([(a, b, mname)] if n % 5 else [(a, b, mname), MAPS[3]]):
                e = run_sub(pu, inn, tn, td, aa, bb)
                ctx.count((repr(inn), tn, td, mn))
                if e["status"] != "ok":
                    ctx.violation("bezier.terminates", {"mode": "G", "event": e}, "returns", e["status"])
                elif e["integral"] and e["out"] == walk and e["orig"] == st["orig"]:
                    pass                          # equals the walk, which TLC proved to satisfy the statement
                else:
                    e["mode"] = "G"
                    tojudge.append(e)
            if n % 3001 == 1:
                ctx.sample({"mode": "G", "nodes_scaled_by_4096": inn, "flatness_squared": "%d/%d" % (tn, td), "walk_nodes": len(walk)})
        os.remove(dump + ".dump")
    ctx.traces += n
    ctx.stage("G", kind="spec->code", vectors=n, results_differing_from_walk=len(tojudge))
    ctx.exhaustive = True
    # trivial lists
    for inn in ([], [[[0, 0], [SC, SC], [2 * SC, 0]]]):
        e = run_sub(pu, inn, 3, 7)
        ctx.count(("trivial", len(inn)))
        if e["status"] != "ok" or e["out"] != inn:
            ctx.violation("bezier.short_list_unchanged", {"mode": "G", "event": e}, inn, e["out"])
    # V: random paths of <= 6 nodes on an 8x8 lattice
    rng = random.Random(ctx.seed * 15485863 + 10)
    nv = 1200 if tier == "quick" else 40000
    evs = list(tojudge)
    for _ in range(nv):
        nn = rng.choice([2, 2, 3, 4, 6])
        S = rng.choice([1, 2, 3, 7])
        pt = lambda: [rng.randint(0, S) * SC, rng.randint(0, S) * SC]  # noqa: E731
        inn = []
        for _k in range(nn):
            p = pt()
            k = rng.random()
            if k < 0.15:
                inn.append([list(p), list(p), list(p)])          # retracted handles
            elif k < 0.3 and inn:
                q = inn[-1][1]
                inn.append([pt(), list(q), pt()])                # coincident nodes
            else:
                inn.append([pt(), p, pt()])
        if rng.random() < 0.1:
            inn[-1][1] = list(inn[0][1])                         # closed loop
        tn, td = rng.choice([(11, 7), (3, 7), (3, 28), (47, 7), (3, 112), (5, 7)])
        a, b, _m = rng.choice(MAPS[:3])
        e = run_sub(pu, inn, tn, td, a, b)
        e["mode"] = "V"
        evs.append(e)
    # exact ties: an inner control point at a distance EXACTLY equal to the flatness is not "closer than" it - the piece must be split.
    # Flatness values with a rational square root (1/2, 1, 3/2, 2) on chords along an axis and along 3-4-5 directions; everything stays
    # exact in binary floating point (small dyadic numbers), so the code meets the tie itself, not a rounded neighbour of it.
    for L in (3, 4, 6):
        for t, (tn, td) in ((1, (1, 1)), (2, (4, 1))):
            for x1 in range(0, L + 1):
                for x2, y2 in ((x1, t), (L - x1, -t), (L, 0), (x1, 0)):
                    for swap in (False, True):
                        p0, p1, p2, p3 = [0, 0], [x1, t], [x2, y2], [L, 0]
                        if swap:
                            p0, p1, p2, p3 = [p0[1], p0[0]], [p1[1], p1[0]], [p2[1], p2[0]], [p3[1], p3[0]]
                        S = lambda p: [p[0] * SC, p[1] * SC]  # noqa: E731
                        inn = [[S(p0), S(p0), S(p1)], [S(p2), S(p3), S(p3)]]
                        a, b, _m = MAPS[(x1 + L + t) % 2]
                        e = run_sub(pu, inn, tn, td, a, b)
                        e["mode"] = "V"
                        evs.append(e)
    for (tn, td) in ((1, 4), (9, 4), (1, 1)):
        for _ in range(40 if tier == "quick" else 400):
            S2 = rng.choice([2, 3, 4])
            pt = lambda: [rng.randint(0, S2) * SC, rng.randint(0, S2) * SC]  # noqa: E731
            inn = [[pt(), pt(), pt()], [pt(), pt(), pt()]]
            e = run_sub(pu, inn, tn, td, 1.0, 0.0)
            e["mode"] = "V"
            evs.append(e)
    ok_evs = [e for e in evs if e["status"] == "ok"]
    vs = judge(ctx, "v", ok_evs)
    rej = 0
    for e in evs:
        if e["status"] != "ok":
            rej += 1
            ctx.violation("bezier.terminates", {"mode": e["mode"], "event": {k: e[k] for k in ("inn", "tn", "td", "map", "status")}}, "returns", e["status"])
    for e, v in zip(ok_evs, vs):
        if e["mode"] == "V":
            ctx.count(("V", repr(e["inn"]), e["tn"], e["td"]))
        if v == "skip":
            ctx.skipped += 1
        elif v != "ok":
            rej += 1
            ctx.violation(v, {"mode": e["mode"], "event": {k: e[k] for k in ("inn", "tn", "td", "map", "out", "orig", "integral")}}, "ok", v)
    ctx.traces += nv
    # V-deep: the realistic regime (flatness a few hundredths of the curve's size, 5-7 levels of halving), judged with D = 7
    nd = 120 if tier == "quick" else 3000
    deep = []
    for _ in range(nd):
        S = rng.choice([1, 2, 3, 7])
        pt = lambda: [rng.randint(0, S) * SC7, rng.randint(0, S) * SC7]  # noqa: E731
        inn = [[pt(), pt(), pt()] for _k in range(rng.choice([2, 2, 3]))]
        if rng.random() < 0.15:
            inn[-1][1] = list(inn[0][1])
        tn, td = 3, 7 * 4 ** rng.choice([3, 4, 5, 6, 6, 7, 7, 8])
        a, b, _m = rng.choice(MAPS[:3])
        e = run_sub(pu, inn, tn, td, a, b, SC=SC7)
        e["mode"] = "V"
        deep.append(e)
    ok_deep = [e for e in deep if e["status"] == "ok"]
    vd = judge(ctx, "vdeep", ok_deep, cfg="BezierTrace7.cfg")
    dskip = 0
    for e in deep:
        if e["status"] != "ok":
            rej += 1
            ctx.violation("bezier.terminates", {"mode": "V", "event": {k: e[k] for k in ("inn", "tn", "td", "map", "status", "sc")}}, "returns", e["status"])
    for e, v in zip(ok_deep, vd):
        ctx.count(("Vdeep", repr(e["inn"]), e["tn"], e["td"]))
        if v == "skip":
            dskip += 1
            ctx.skipped += 1
        elif v != "ok":
            rej += 1
            ctx.violation(v, {"mode": "V", "event": {k: e[k] for k in ("inn", "tn", "td", "map", "out", "orig", "integral", "deeper", "sc")}}, "ok", v)
    ctx.traces += nd
    ctx.stage("Vdeep", kind="code->spec", events=nd, D=7, skipped_deeper_than_D=dskip, max_nodes_out=max([len(e["out"]) for e in ok_deep] or [0]))
    e0 = next(e for e in evs if e["mode"] == "V")
    ctx.sample({"mode": "V", "nodes_in": e0["inn"], "flatness_squared": "%d/%d" % (e0["tn"], e0["td"]), "nodes_out": len(e0["out"]), "orig_positions": e0["orig"]})
    ctx.stage("V", kind="code->spec", events=len(evs), rejected=rej, skipped_deeper_than_D=ctx.skipped)
    ctx.trusted += ["TLC 1.8", "BigInt.tla", "harness identity bookkeeping of node objects and exact rescaling of dyadic floats to integers", "vlib TLA value parser"]
    ctx.assumptions += ["control points on integer lattices mapped through exact affine maps; halving dyadic numbers is exact in binary floating point",
                        "flatness sqrt(tn/td) with tie-free tn/td; subdivisions deeper than D levels (4; 7 in the deep V stage) are skipped (counted)",
                        "a dyadic parameter interval is one obtained by repeated halving, [k/2^n, (k+1)/2^n]"]
    return ctx.finish(
        rule="G: every single-piece curve with control points on the 3x3 lattice (thorough: also every two-piece path on 2x2) x tie-free flatness values through "
             "subdivideCubicPath; results identical to the TLC walk pass, others are judged by TLC; V: random paths of 2..6 nodes on lattices up to 8x8 with "
             "retracted handles, coincident nodes and closed loops; distinct = distinct (path, flatness, map)",
        explanation="TLC checks on the complete universe that the index walk (split at 1/2, rewrite the two handles in place, insert, re-examine) ends with a node "
                    "list that parses into dyadic restrictions of the original pieces (recursive de Casteljau matching), keeps original nodes and outer handles, "
                    "has every piece flat, and never needs more than D levels; the real function is judged by the same abstract operator.")


def replay(rec):
    pu = _pu()
    e = rec["case"]["event"]
    a, b = e.get("map", [1.0, 0.0])
    sc = e.get("sc", SC)
    e2 = run_sub(pu, e["inn"], e["tn"], e["td"], a, b, SC=sc)
    if e2["status"] != "ok":
        return False, {"status": e2["status"]}
    ctx = vlib.Ctx("C10", "quick", 0, LEVEL, fresh=False)
    v = judge(ctx, "replay", [e2], cfg="BezierTrace7.cfg" if sc == SC7 else "BezierTrace.cfg")[0]
    return v in ("ok", "skip"), {"verdict": v, "nodes_out": len(e2["out"])}
