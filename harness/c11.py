"""C11 - viewBox scaling. Specs: ViewBox (Expected = SVG 1.1 rules in exact rationals; Impl = the code's two branches), ViewBoxTrace."""
import math
import os
import random

import vlib

LEVEL = "model_checking"
XN = ["xMin", "xMid", "xMax"]
YN = ["YMin", "YMid", "YMax"]
SEPS = [" ", ",", " , ", "  ", ", ", "\t", "\n "]             # viewBox numbers: white space and/or a comma
PSEPS = [" ", "  ", "\t", " \t ", "   ", "\n ", " \n"]      # preserveAspectRatio words: white space only (its grammar has no comma)
NVAR = 112                     # 4 case styles x 7 separators x defer x leading space; the size factors and number formats ride on the same index
# exact (dyadic) size factors (viewBox numbers, document size): sizes are not integers in real documents ("0 0 8.5 11", width 793.7)
FACTORS = [(1, 1), (0.125, 1), (1, 0.375), (2.5, 0.125)]


def factors(variant):
    return FACTORS[(variant + variant // 4 + variant // 28) % 4]          # mixed with case, separator, defer and leading space, not tied to one of them


def _pu():
    from plotink import plot_utils
    return plot_utils


def render_par(al, mos, variant):
    """preserveAspectRatio text for an align (pair or [9,9] = none) and meet/slice/absent, in a syntactic variant"""
    name = "none" if al[0] == 9 else XN[al[0]] + YN[al[1]]
    case, sep, defer, lead = variant % 4, PSEPS[(variant // 4) % len(PSEPS)], (variant // 28) % 2, (variant // 56) % 2
    name = [name, name.lower(), name.upper(), name.lower()][case]
    toks = ([["defer", "defer", "DEFER", "Defer"][case]] if defer else []) + [name] + \
        ([] if mos == "absent" else [[mos, mos.upper(), mos.capitalize(), mos.upper()][case]])
    if mos == "absent" and al == [1, 1] and not defer and variant % 7 == 0:
        return None                               # attribute absent altogether: xMidYMid meet
    s = sep.join(toks)
    return ("  " + s + " ") if lead else s


def render_vb(kind, minx, miny, w, h, variant):
    if kind == "none":
        return None
    if kind == "three_numbers":
        return "%d %d %d" % (minx, miny, w)
    if kind == "empty":
        return ["", "   "][variant % 2]
    if kind == "non_numeric":
        return ["%d %d abc %d" % (minx, miny, h), "a b c d", "%d %d %d px" % (minx, miny, w), "0 0 1e 5",
                "%d %d %dpx %d" % (minx, miny, w, h), "%dpx %d %d %d" % (minx, miny, w, h), "%d %d %d %dmm" % (minx, miny, w, h),
                "%d %d %d%% %d" % (minx, miny, w, h)][variant % 8]          # a viewBox is four NUMBERS: a length with a unit is not one
    if kind == "zero_width":
        w = 0
    if kind == "zero_height":
        h = 0
    if kind == "negative_height":
        h = -h
    if kind == "negative_width":
        w = -w
    if kind == "negative_both":
        w, h = -w, -h
    sep = SEPS[variant % len(SEPS)]
    fv = factors(variant)[0]
    if fv != 1:
        return sep.join(repr(float(v * fv)) for v in (minx, miny, w, h))          # exact: dyadic factor
    fmt = ["%d", "%.1f", "%d", "%.3f"][(variant // 7) % 4]
    return sep.join(fmt % v for v in (minx, miny, w, h))


def doc_size(kind, W, H, variant):
    if kind == "zero_doc_width":
        W = 0
    if kind == "negative_doc_height":
        H = -H
    if kind == "negative_doc_both":
        W, H = -W, -H
    if kind == "zero_doc_height":
        H = 0
    if kind == "negative_doc_width":
        W = -W
    fd = factors(variant)[1]
    if fd != 1:
        return float(W * fd), float(H * fd)
    conv = [int, float][variant % 2]                   # document sizes are numbers (the callers pass parsed lengths)
    return conv(W), conv(H)


def rat(v):
    return v[0] / v[1]


def call_and_judge(pu, kind, vbv, al, mos, exp, variant):
    minx, miny, w, h, W, H = vbv
    vb = render_vb(kind, minx, miny, w, h, variant)
    par = render_par(list(al), mos, variant)
    dW, dH = doc_size(kind, W, H, variant)
    case = {"viewBox": vb, "preserveAspectRatio": par, "doc": [dW, dH], "kind": kind, "vb": list(vbv), "align": list(al), "mos": mos, "variant": variant}
    try:
        out = pu.vb_scale(vb, par, dW, dH)
    except Exception as ex:  # pylint: disable=broad-except
        return case, ("viewbox.raises" if exp["ident"] else "viewbox.raises_on_valid_input", "a transform", type(ex).__name__ + ": " + str(ex)[:60])
    try:
        sx, sy, ox, oy = (float(v) for v in out)
    except Exception:  # pylint: disable=broad-except
        return case, ("viewbox.result_shape", "4 numbers", repr(out))
    if exp["ident"]:
        if (sx, sy, ox, oy) != (1.0, 1.0, 0.0, 0.0):
            return case, ("viewbox.malformed_yields_identity", [1, 1, 0, 0], [sx, sy, ox, oy])
        return case, None
    # the abstract answer is homogeneous: viewBox numbers x fv and document size x fd scale the ratio by fd/fv and the landing point by fd
    fv, fd = factors(variant)
    esx, esy, etx, ety = rat(exp["sx"]) * fd / fv, rat(exp["sy"]) * fd / fv, rat(exp["tx"]) * fd, rat(exp["ty"]) * fd
    minx, miny, w, h, W, H = minx * fv, miny * fv, w * fv, h * fv, W * fd, H * fd
    scale = max(1.0, abs(W), abs(H), abs(w * esx), abs(h * esy))
    if not (math.isclose(sx, esx, rel_tol=1e-12) and math.isclose(sy, esy, rel_tol=1e-12)):
        return case, ("viewbox.scale", [esx, esy], [sx, sy])
    lx, ly = (minx + ox) * sx, (miny + oy) * sy
    if not (abs(lx - etx) <= 1e-9 * scale and abs(ly - ety) <= 1e-9 * scale):
        return case, ("viewbox.alignment", {"min_corner_lands_at": [etx, ety]}, [lx, ly])
    return case, None


def run(ctx):
    pu = _pu()
    tier = ctx.tier
    dump = os.path.join(ctx.workdir, "e1", "states")
    ctx.run_tlc("e1", "ViewBoxMC", "ViewBox_%s.cfg" % tier, dump=dump, coverage=False)
    # E2: the branch choice picks the SVG scale (min ratio for meet, max for slice) for ALL positive integer sizes
    proved = vlib.apalache(ctx, "viewbox", "ViewBoxInd", [("branch choice = SVG meet/slice scale, unbounded sizes", ["--init=Init", "--inv=BranchPicksSVGScale", "--length=0"])])
    ctx.assumptions.append("apalache unbounded branch-choice lemma discharged: %s" % proved)
    n = 0
    kinds = {}
    nvar = 2 if tier == "quick" else 3
    for st in vlib.read_dump(dump + ".dump", only={"vb", "al", "mos", "kind", "exp"}):
        n += 1
        kinds[st["kind"]] = kinds.get(st["kind"], 0) + 1
        reps = range(NVAR) if st["kind"] != "ok" and n % 5 == 0 else [(n * 7 + k * 37) % NVAR for k in range(nvar)]
        for variant in reps:
            ctx.count((st["kind"], tuple(st["vb"]), tuple(st["al"]), st["mos"], variant))
            case, bad = call_and_judge(pu, st["kind"], st["vb"], st["al"], st["mos"], st["exp"], variant)
            if bad:
                ctx.violation(bad[0], dict(case, mode="G"), bad[1], bad[2], input_class=None)
        if n % 6007 == 1:
            ctx.sample({"mode": "G", "kind": st["kind"], "vb_and_doc": st["vb"], "align": st["al"], "mos": st["mos"],
                        "example_text": [render_vb(st["kind"], *st["vb"][:4], 3), render_par(list(st["al"]), st["mos"], 4)],
                        "abstract": {k: st["exp"][k] for k in ("sx", "sy", "tx", "ty", "ident")}})
    os.remove(dump + ".dump")
    ctx.traces += n
    ctx.stage("G", kind="spec->code", vectors=n, by_kind=kinds, syntactic_variants_per_vector=nvar)
    ctx.exhaustive = True
    # V: random larger integers
    rng = random.Random(ctx.seed * 32452843 + 11)
    nv = 4000 if tier == "quick" else 150000
    evs = []
    for _ in range(nv):
        S = rng.choice([5, 50, 1000])
        w, h = rng.randint(1, S), rng.randint(1, S)
        W, H = rng.randint(1, S), rng.randint(1, S)
        k = rng.random()
        if k < 0.08:
            # aspect ratios that differ by a hair (1/(w*m)): which axis fills the page is decided by an exact comparison, not a tolerant one
            m = rng.choice([7, 19, 40, 60])
            W, H = w * m, h * m + rng.choice([-1, 1])
            if H < 1:
                H = h * m + 1
        elif k < 0.15:
            W, H = w * rng.randint(1, 3), h * rng.randint(1, 3)        # equal / simply related aspect
        elif k < 0.25:
            W, H = h, w
        al = [9, 9] if rng.random() < 0.1 else [rng.randint(0, 2), rng.randint(0, 2)]
        evs.append({"minx": rng.randint(-S, S), "miny": rng.randint(-S, S), "w": w, "h": h, "W": W, "H": H, "ax": al[0], "ay": al[1],
                    "mos": rng.choice(["meet", "slice", "absent"]), "kind": "ok", "variant": rng.randint(0, NVAR - 1)})
    exps, stats = vlib.judge_events(os.path.join(ctx.workdir, "v"), "ViewBoxTrace", "ViewBoxTrace.cfg", evs)
    ctx.states += stats["distinct"]
    ctx.transitions += stats["generated"]
    rej = 0
    for e, exp in zip(evs, exps):
        ctx.count(("V", e["minx"], e["miny"], e["w"], e["h"], e["W"], e["H"], e["ax"], e["ay"], e["mos"]))
        case, bad = call_and_judge(pu, "ok", (e["minx"], e["miny"], e["w"], e["h"], e["W"], e["H"]), (e["ax"], e["ay"]), e["mos"], exp, e["variant"])
        if bad:
            rej += 1
            ctx.violation(bad[0], dict(case, mode="V"), bad[1], bad[2])
    ctx.traces += nv
    ctx.sample({"mode": "V", "event": evs[0], "abstract": exps[0]})
    ctx.stage("V", kind="code->spec", events=nv, rejected=rej)
    ctx.trusted += ["TLC 1.8", "Rat.tla", "harness rendering of the attribute text variants and float-vs-rational comparison (rel 1e-12 / abs 1e-9*scale)", "vlib parser"]
    ctx.assumptions += ["viewBox/document sizes are integers times an exact dyadic factor (1, 1/8, 3/8, 5/2; the spec's exact rationals scale homogeneously); the result is judged through the map x -> (x+o)*s, not field by field",
                        "unknown align words and more than four viewBox numbers are outside the statement"]
    return ctx.finish(
        rule="G: every (min-x,min-y,w,h,W,H) x {none + 9 aligns} x {meet,slice,absent} of the TLC universe plus 14 malformed kinds (each also with none and slice), each rendered in "
             "2-3 of 112 variants (case incl. mixed, 7 separators incl. tab/newline, defer, leading space, number format, 4 non-integer size factors; all 112 for a fifth of the malformed vectors); V: random integers up to 1000 (and page sizes up to 60x that, with aspect ratios a hair apart); "
             "distinct = distinct (vector, variant)",
        explanation="TLC checks that the code's two-branch excess-width/height formulation lands the viewBox min corner where SVG 1.1 prescribes on the whole "
                    "universe (both aspect orderings and equality), and emits the abstract scale/landing for every vector; the real vb_scale is judged against it.")


def replay(rec):
    pu = _pu()
    c = rec["case"]
    vbv, al, mos, kind = c["vb"], c["align"], c["mos"], c["kind"]
    e = {"minx": vbv[0], "miny": vbv[1], "w": vbv[2], "h": vbv[3], "W": vbv[4], "H": vbv[5], "ax": al[0], "ay": al[1], "mos": mos, "kind": kind}
    ctx = vlib.Ctx("C11", "quick", 0, LEVEL, fresh=False)
    exps, _ = vlib.judge_events(os.path.join(ctx.workdir, "replay"), "ViewBoxTrace", "ViewBoxTrace.cfg", [e])
    _case, bad = call_and_judge(pu, kind, vbv, al, mos, exps[0], c["variant"])
    return bad is None, {"mismatch": bad, "abstract": exps[0]}
