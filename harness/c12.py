"""C12 - length parsing and unit conversion. Spec: Units (numeral values, abstract factor table, the code's tables as impl-shaped operators)."""
import math
import os

import vlib

LEVEL = "model_checking"
MALFORMED = {
    "empty": "", "blank": "   ", "bare_unit_mm": "mm", "bare_px": "px", "bare_percent": "%", "word": "abc", "two_dots": "1.2.3",
    "double_sign": "--5", "dangling_exponent": "1e", "exponent_only": "e5", "lone_dot": ".", "lone_sign": "+", "two_numbers": "5 5",
    "decimal_comma": "1,5", "nan": "nan", "inf": "inf", "neg_infinity": "-Infinity", "nan_mm": "NaNmm", "inf_px": "infpx",
}
WS = [("", ""), (" ", ""), ("", "  "), ("\t", " "), ("  ", "\n")]


def _pu():
    from plotink import plot_utils
    return plot_utils


def render_numeral(neg, ip, fr, ex, variant):
    """text spellings of the numeral; the value is fixed by the spec"""
    fn, fd = fr
    digits = len(str(fd)) - 1
    frac = ("%0*d" % (digits, fn)) if fd > 1 else ""
    ints = str(ip)
    v = variant % 6
    if v == 1:
        ints = "00" + ints
    if v == 2 and ip == 0 and frac:
        ints = ""                                   # ".5"
    body = ints + ("." + frac if frac else ("." if v == 3 and ints else ""))
    if v == 4 and frac:
        body += "0"                                 # trailing zero
    sign = "-" if neg else ("+" if v == 5 else "")
    if ex == 0 and variant % 2 == 0:
        e = ""
    else:
        e = ("e", "E")[variant % 2] + (("+" if (variant // 2) % 2 and ex >= 0 else "") + str(ex))
    return sign + body + e


class Doc:
    """stub for altself.document.getroot().get(name)"""
    def __init__(self, attrs):
        self.attrs = attrs
        self.document = self

    def getroot(self):
        return self

    def get(self, name):
        return self.attrs.get(name)


def rat(v):
    return v[0] / v[1]


def close(a, b):
    """a is the number b, whatever numeric type it comes in (float, int, Fraction, Decimal)"""
    try:
        a = float(a)
    except Exception:  # pylint: disable=broad-except
        return False
    return not isinstance(a, bool) and math.isfinite(a) and math.isclose(a, b, rel_tol=1e-12, abs_tol=1e-300)


def judge_ok(pu, text, unit, ref, exp):
    """all clauses for one valid text; returns list of (clause, expected, observed)"""
    bad = []
    v = rat(exp["value"])
    try:
        pv, punit = pu.parseLengthWithUnits(text)
    except Exception as ex:  # pylint: disable=broad-except
        return [("units.parse_raises", "value", type(ex).__name__)]
    if not (isinstance(pv, float) and close(pv, v)) and not (pv == v):
        bad.append(("units.parse_value", v, pv))
    if punit not in list(exp["units"]):
        bad.append(("units.parse_unit", list(exp["units"]), punit))
    want_user = rat(exp["user"])
    try:
        uu = pu.unitsToUserUnits(text, ref)
    except Exception as ex:  # pylint: disable=broad-except
        return bad + [("units.to_user_raises", want_user, type(ex).__name__)]
    if not (close(uu, want_user) or uu == want_user):
        bad.append(("units.to_user_units", want_user, uu))
    if unit != "%":
        # an absolute unit does not look at the percentage reference: the same answer without one
        try:
            u0 = pu.unitsToUserUnits(text)
            if not (close(u0, want_user) or u0 == want_user):
                bad.append(("units.to_user_units_no_reference", want_user, u0))
        except Exception as ex:  # pylint: disable=broad-except
            bad.append(("units.to_user_raises", want_user, type(ex).__name__))
    if not bad and unit != "%":
        # converting back returns the original value
        try:
            back = pu.userUnitToUnits(uu, unit)
            if not (close(back, v) or back == v):
                bad.append(("units.round_trip", v, back))
            if unit == "Q":
                back2 = pu.userUnitToUnits(uu, "q")
                if not (close(back2, v) or back2 == v):
                    bad.append(("units.round_trip", v, back2))
        except Exception as ex:  # pylint: disable=broad-except
            bad.append(("units.round_trip", v, type(ex).__name__))
    if unit == "%":
        # a percentage converted without a reference and back is the original value too ("converting back returns the original value" names every unit)
        # (the statement fixes percentages "of the supplied reference": the round trip is judged with the reference 1; what the library
        # does when no reference is supplied is compared only if it answers with a number)
        try:
            u1 = pu.unitsToUserUnits(text, 1)
            back = pu.userUnitToUnits(u1, "%")
            if not (close(back, v) or back == v):
                bad.append(("units.round_trip_percent", v, back))
        except Exception as ex:  # pylint: disable=broad-except
            bad.append(("units.round_trip_percent", v, type(ex).__name__))
        try:
            u0 = pu.unitsToUserUnits(text)
            if isinstance(u0, (int, float)) and not isinstance(u0, bool):
                back0 = pu.userUnitToUnits(u0, "%")
                if not (close(back0, v) or back0 == v):
                    bad.append(("units.round_trip_percent", v, back0))
        except Exception:  # pylint: disable=broad-except
            pass
    # document-attribute readers
    doc = Doc({"width": text})
    try:
        gl = pu.getLength(doc, "width", ref)
        if not (close(gl, want_user) or gl == want_user):
            bad.append(("units.attribute_pixels", want_user, gl))
        gi = pu.getLengthInches(doc, "width")
        if unit == "%":
            if gi is not None:
                bad.append(("units.attribute_inches_percent", None, gi))
        else:
            wi = rat(exp["inches"])
            if not (close(gi, wi) or gi == wi):
                bad.append(("units.attribute_inches", wi, gi))
            elif gl is not None and not math.isclose(gi * 96.0, gl, rel_tol=1e-12, abs_tol=1e-300):
                bad.append(("units.pixels_equal_inches_times_96", gl, gi * 96.0))
    except Exception as ex:  # pylint: disable=broad-except
        bad.append(("units.attribute_reader_raises", "value", type(ex).__name__))
    return bad


def judge_none(pu, text, ref):
    bad = []
    try:
        pv = pu.parseLengthWithUnits(text)
        if not (pv is None or (isinstance(pv, (tuple, list)) and len(pv) >= 1 and pv[0] is None)):       # "yields None": no value, whatever the shape
            bad.append(("units.no_numeric_part_parses_to_none", [None, None], repr(pv)))
        uu = pu.unitsToUserUnits(text, ref)
        if uu is not None:
            bad.append(("units.unsupported_yields_none", None, uu))
        if text.strip():
            doc = Doc({"width": text})
            gl = pu.getLength(doc, "width", ref)
            gi = pu.getLengthInches(doc, "width")
            if gl is not None or gi is not None:
                bad.append(("units.attribute_unsupported_yields_none", None, [gl, gi]))
    except Exception as ex:  # pylint: disable=broad-except
        bad.append(("units.unsupported_raises", None, type(ex).__name__ + ": " + str(ex)[:50]))
    return bad


def run(ctx):
    pu = _pu()
    dump = os.path.join(ctx.workdir, "e1", "states")
    ctx.run_tlc("e1", "UnitsMC", "Units_%s.cfg" % ctx.tier, dump=dump)
    n = 0
    kinds = {}
    for st in vlib.read_dump(dump + ".dump"):
        n += 1
        kind, unit, ref = st["kind"], st["unit"], st["ref"]
        kinds[kind] = kinds.get(kind, 0) + 1
        neg, ip, fr, ex = st["num"]
        if kind == "ok":
            for variant in range(12):
                for (lw, rw) in (WS[variant % len(WS)], WS[(variant + 2) % len(WS)]):
                    for u in ([unit] if unit != "Q" else ["Q", "q"]):
                        text = lw + render_numeral(neg, ip, fr, ex, variant) + u + rw
                        ctx.count((text, ref))
                        for cl, want, got in judge_ok(pu, text, unit, ref, st["exp"]):
                            ctx.violation(cl, {"mode": "G", "text": text, "unit": unit, "ref": ref, "num": st["num"]}, want, got)
            if n % 1009 == 1:
                ctx.sample({"mode": "G", "numeral": st["num"], "unit": unit, "ref": ref, "texts": [render_numeral(neg, ip, fr, ex, k) + unit for k in range(4)],
                            "abstract": {k: st["exp"][k] for k in ("value", "user", "inches")}})
        else:
            if kind == "unsupported_unit":
                texts = [lw + render_numeral(False, ip, fr, 0, k) + unit + rw for k in range(3) for (lw, rw) in WS[:3]]
            else:
                texts = [lw + MALFORMED[kind] + rw for (lw, rw) in WS]
            for text in texts:
                ctx.count((text, ref))
                for cl, want, got in judge_none(pu, text, ref):
                    ctx.violation(cl, {"mode": "G", "text": text, "kind": kind, "ref": ref}, want, got, input_class=None)
    os.remove(dump + ".dump")
    if set(MALFORMED) - set(kinds):
        raise vlib.MachineryError("Units.tla Malformed and harness MALFORMED disagree: %r" % (set(MALFORMED) - set(kinds)))
    # None input
    ctx.count(("None",))
    try:
        pn = pu.parseLengthWithUnits(None)
    except Exception:  # pylint: disable=broad-except
        pn = None                                   # the statement speaks of text; how "no text at all" is refused is not fixed
    if not (pn is None or (isinstance(pn, (tuple, list)) and pn and pn[0] is None)):
        ctx.violation("units.no_numeric_part_parses_to_none", {"mode": "G", "text": None}, [None, None], repr(pu.parseLengthWithUnits(None)))
    # the code's own tables against each other through a value the spec knows: 1 unit
    ctx.traces += n
    ctx.sample({"mode": "G", "malformed_texts": MALFORMED})
    ctx.stage("G", kind="spec->code", vectors=n, by_kind=kinds, spellings_per_numeral=24)
    ctx.exhaustive = True
    ctx.trusted += ["TLC 1.8", "Rat.tla", "harness rendering of numerals/whitespace and float-vs-rational comparison (rel 1e-12)", "vlib parser"]
    ctx.assumptions += ["numerals of the enumerated shapes only (sign, leading zeros, bare fraction, trailing dot/zero, e/E exponents with sign)",
                        "percent reference is a non-negative number (0 included: a percentage of 0 is 0)",
                        "Python-only numeral spellings with a numeric part ('1_0', non-ASCII digits) are not claimed either way"]
    return ctx.finish(
        rule="G only: every (numeral, unit, reference) of the TLC universe in 24 text spellings (12 numeral variants x 2 whitespace variants; Q also as q) "
             "through parseLengthWithUnits, unitsToUserUnits, userUnitToUnits, getLength and getLengthInches (stub document); every unsupported unit and 19 "
             "malformed texts must yield None; distinct = distinct (text, reference)",
        explanation="TLC computes the exact rational value of each numeral and its conversions from one abstract SVG factor table, checks the code's four "
                    "divisor tables against it (TablesAgree) and the round-trip / inches*96 identities; the real functions are compared with those rationals.")


def replay(rec):
    pu = _pu()
    c = rec["case"]
    if "num" in c:
        neg, ip, fr, ex = c["num"]
        v = (ip + fr[0] / fr[1]) * (10.0 ** ex) * (-1 if neg else 1)
        # recompute expectation through TLC is unnecessary here: the abstract record is a function of (num, unit, ref)
        from fractions import Fraction
        F = {"": Fraction(1), "px": Fraction(1), "in": Fraction(96), "mm": Fraction(480, 127), "cm": Fraction(4800, 127), "pt": Fraction(4, 3),
             "pc": Fraction(16), "Q": Fraction(120, 127)}
        val = (Fraction(ip) + Fraction(fr[0], fr[1])) * (Fraction(10) ** ex) * (-1 if neg else 1)
        unit, ref = c["unit"], c["ref"]
        user = val * ref / 100 if unit == "%" else val * F[unit]
        exp = {"value": [val.numerator, val.denominator], "units": ["px", ""] if unit == "" else [unit], "user": [user.numerator, user.denominator],
               "inches": [0, 1] if unit == "%" else [(user / 96).numerator, (user / 96).denominator]}
        bad = judge_ok(pu, c["text"], unit, ref, exp)
    else:
        bad = judge_none(pu, c["text"], c.get("ref", 50)) if c["text"] is not None else []
    return not bad, {"mismatches": bad}
