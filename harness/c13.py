"""C13 - spatial_grid.Index.nearest(). Specs: GridOps (NearestOK; impl-shaped adjacents/scan), Grid (build + removals), GridTrace."""
import itertools
import operator
import os
import random

import vlib

LEVEL = "model_checking"
MAPS = [(1, 0, "int"), (1.0, 0.0, "float"), (0.5, 2.0, "x0.5+2"), (256.0, -3.0, "x2^8-3"),
        # sub-unit geometry: distances and cell sizes below 1, where a squared distance is SMALLER than the distance (a units slip shows only there)
        (0.125, 1.0, "x2^-3+1"), (2.0 ** -6, 0.0, "x2^-6")]


def _sg():
    from plotink import spatial_grid
    return spatial_grid


def run_history(sg, paths, n, rev, ops, a=1, b=0):
    """paths: [[ [x,y],[x,y] ], ...] lattice ints; ops: [("q", x, y) | ("rm", p0)] ; returns the event for GridTrace"""
    f = lambda v: a * v + b  # noqa: E731
    verts = [[[f(s[0]), f(s[1])], [f(e[0]), f(e[1])]] for s, e in paths]
    ev = {"paths": [[list(s), list(e)] for s, e in paths], "n": n, "rev": bool(rev), "lookup": [], "ops": [], "map": [a, b], "status": "ok"}
    try:
        idx = sg.Index(verts, n, rev)
        try:                                   # the object's own cell table sharpens the verdict; its absence is not an error
            ev["lookup"] = [int(c) for c in getattr(idx, "lookup", [])]
        except Exception:  # pylint: disable=broad-except
            ev["lookup"] = []
        for op in ops:
            if op[0] == "q":
                r = idx.nearest([f(op[1]), f(op[2])])
                if r is None:
                    r = -1
                else:
                    try:
                        r = -2 if isinstance(r, bool) else operator.index(r)        # any integer type (numpy ints included) is an identifier
                    except TypeError:
                        r = -2
                    if r == -2:
                        ev["status"] = "nearest returned a non-identifier"
                ev["ops"].append(["q", op[1], op[2], r])
            else:
                idx.remove_path(op[1])
                ev["ops"].append(["rm", op[1]])
    except Exception as ex:  # pylint: disable=broad-except
        ev["status"] = "raised " + type(ex).__name__ + ": " + str(ex)[:60]
    return ev


def judge(ctx, name, evs):
    slim = [{k: e[k] for k in ("paths", "n", "rev", "lookup", "ops")} for e in evs]
    vs, stats = vlib.judge_events(os.path.join(ctx.workdir, name), "GridTrace", "GridTrace.cfg", slim, chunk=2500)
    ctx.states += stats["distinct"]
    ctx.transitions += stats["generated"]
    return vs


def report(ctx, mode, evs, vs):
    rej = 0
    for e, v in zip(evs, vs):
        if v == "skip":                        # zero extent: outside the statement's domain
            ctx.skipped += 1
        elif e["status"] != "ok":
            rej += 1
            ctx.violation("nearest.raises_or_bad_type", {"mode": mode, "event": e}, "an end id or None", e["status"])
        elif v != "ok":
            rej += 1
            clause, _, at = v.partition("@")
            ctx.violation(clause, {"mode": mode, "event": e, "failing_op": int(at or 0)}, "NearestOK", e["ops"][int(at) - 1] if at else None)
    return rej


def run(ctx):
    sg = _sg()
    tier = ctx.tier
    cfgs = ["Grid_quick.cfg"] if tier == "quick" else ["Grid_thorough.cfg", "Grid_three.cfg"]
    evs = []
    nstates = 0
    rng = random.Random(ctx.seed * 49979687 + 13)
    for ci, cfg in enumerate(cfgs):
        dump = os.path.join(ctx.workdir, "e1_%d" % ci, "states")
        ctx.run_tlc("e1_%d" % ci, "Grid", cfg, dump=dump, coverage=(ci == 0 and tier == "thorough"))
        three = "three" in cfg
        qs = list(itertools.product(range(-1, 3 if three else 4), repeat=2))
        for st in vlib.read_dump(dump + ".dump", only={"paths", "n", "rev", "live", "phase"}, prefilter='phase = "live"'):
            nstates += 1
            # quick: every state but a rotating third of the query lattice; thorough: all queries
            paths, n, rev = st["paths"], st["n"], st["rev"]
            live = set(st["live"])
            removed = [p for p in range(1, len(paths) + 1) if p not in live]
            if tier == "quick" and (nstates % 2):
                continue
            rng.shuffle(removed)
            sel = qs if tier == "thorough" else [q for k, q in enumerate(qs) if (k + nstates) % 3 == 0]
            ops = [("rm", p - 1) for p in removed] + [("q", x, y) for x, y in sel]
            a, b, mname = MAPS[(nstates // 2) % len(MAPS)]            # (quick runs every second state: the rotation must not be tied to that parity)
            e = run_history(sg, paths, n, rev, ops, a, b)
            ctx.count((repr(paths), n, rev, tuple(sorted(live)), mname))
            evs.append(e)
            if nstates % 20011 == 1:
                ctx.sample({"mode": "G", "paths": paths, "bins": n, "reverse": rev, "live": sorted(live), "ops_head": e["ops"][:5], "lookup": e["lookup"]})
        os.remove(dump + ".dump")
    vs = judge(ctx, "g", evs)
    rej = report(ctx, "G", evs, vs)
    ctx.traces += len(evs)
    ctx.stage("G", kind="spec->code->spec", tlc_live_states=nstates, histories_executed=len(evs), queries=sum(len(e["ops"]) for e in evs), rejected=rej)
    ctx.exhaustive = True
    # V: random histories, 20x20 lattice, <= 8 paths, n <= 6, 30 operations
    nv = 1500 if tier == "quick" else 40000
    vevs = []
    for _ in range(nv):
        S = rng.choice([3, 6, 19])
        P = rng.randint(1, 8)
        pt = lambda: [rng.randint(0, S), rng.randint(0, S)]  # noqa: E731
        paths = [[pt(), pt()] for _k in range(P)]
        if rng.random() < 0.2:      # clustered: many ends in one corner, one far away
            paths = [[[rng.randint(0, 1), rng.randint(0, 1)], [rng.randint(0, 2), rng.randint(0, 2)]] for _k in range(P)]
            paths[rng.randrange(P)] = [[S, S], [S, rng.randint(0, S)]]
        n = rng.randint(1, 6)
        rev = rng.random() < 0.5
        alive = list(range(P))
        ops = []
        for _k in range(30):
            if alive and rng.random() < 0.25:
                p = alive.pop(rng.randrange(len(alive)))
                ops.append(("rm", p))
            else:
                if rng.random() < 0.3:
                    s, e = rng.choice(paths)
                    q = rng.choice([s, e])
                    q = [q[0] + rng.randint(-1, 1), q[1] + rng.randint(-1, 1)]
                else:
                    q = [rng.randint(-3, S + 3), rng.randint(-3, S + 3)]
                ops.append(("q", q[0], q[1]))
        a, b, _m = rng.choice(MAPS)
        vevs.append(run_history(sg, paths, n, rev, ops, a, b))
    vvs = judge(ctx, "v", vevs)
    for e in vevs:
        ctx.count(("V", repr(e["paths"]), e["n"], e["rev"], repr(e["ops"])))
    rej = report(ctx, "V", vevs, vvs)
    ctx.traces += nv
    ctx.sample({"mode": "V", "event": {k: vevs[0][k] for k in ("paths", "n", "rev", "lookup")}, "ops_head": vevs[0]["ops"][:6], "verdict": vvs[0]})
    ctx.stage("V", kind="code->spec", histories=nv, operations=sum(len(e["ops"]) for e in vevs), rejected=rej)
    ctx.trusted += ["TLC 1.8", "vlib parser", "exact affine maps of lattice coordinates"]
    ctx.assumptions += ["paths with non-zero extent (the spec's NonZeroExtent decides); ends on integer lattices mapped through exact affine maps",
                        "a point exactly on a cell border may be binned on either side; where the real object's lookup is admissible it fixes the end's cell",
                        "remove_path is only called for a path that is still present"]
    return ctx.finish(
        rule="G: every live-phase state of the TLC model (all path sets of <= 2 paths on the 3x3 lattice [thorough: also <= 3 paths on 2x2], bins, both reversal "
             "settings, every subset of removed paths) becomes a history executed on a real Index and judged by GridTrace; V: random histories of 30 operations "
             "(<= 8 paths on lattices up to 20x20, bins 1..6, queries inside and outside the grid); distinct = distinct histories",
        explanation="TLC checks that the adjacency lists built by the transcribed find_adjacents are exactly the geometric 3x3 blocks, that the lookup table is "
                    "admissible, and that the impl-shaped scan (strict <, neighbourhood first, id-0/None fall-through into the global scan) satisfies NearestOK "
                    "for every query of the lattice in every reachable state; real histories are judged by the abstract NearestOK only.")


def replay(rec):
    sg = _sg()
    e = rec["case"]["event"]
    ops = [tuple(op[:3]) if op[0] == "q" else tuple(op) for op in e["ops"]]
    a, b = e.get("map", [1, 0])
    e2 = run_history(sg, e["paths"], e["n"], e["rev"], ops, a, b)
    if e2["status"] != "ok":
        return False, {"status": e2["status"]}
    ctx = vlib.Ctx("C13", "quick", 0, LEVEL, fresh=False)
    v = judge(ctx, "replay", [e2])[0]
    return v in ("ok", "skip"), {"verdict": v, "ops": e2["ops"][:12]}
