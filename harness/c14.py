"""C14 - rtree.Index intersection equals brute force. Spec: RTreeOps / RTree / RTreeTrace."""
import json
import os
import random

import vlib

LEVEL = "model_checking"


def _rt():
    from plotink import rtree
    return rtree


def q_of(c, qn):
    return (c % qn, (c // qn) % qn, (c // (qn * qn)) % qn, c // (qn ** 3))


MAPS = [(1, 0), (0.5, -3.0), (2.0 ** 20, 0.0),
        # decimal coordinates (0.1, 0.2, 0.7 ...): monotone maps keep every comparison of the lattice, so the abstract answer is unchanged,
        # but sums and differences of such coordinates round - an overlap test done arithmetically instead of by comparison shows here
        (0.1, 0.0), (1.0 / 3.0, 0.7)]
# identifiers are whatever the caller uses: positions from 1, from 0 (enumerate - 0 is falsy), strings, tuples, sparse numbers
ID_SCHEMES = [lambda i: i + 1, lambda i: i, lambda i: "path%d" % i, lambda i: (i // 3, i % 3), lambda i: 10 * i + 7]


def id_maps(n, scheme):
    mk = ID_SCHEMES[scheme % len(ID_SCHEMES)]
    return [mk(i) for i in range(n)], {mk(i): i + 1 for i in range(n)}


RECENT = []          # the last few collections indexed in this run (a violation may depend on indexes built earlier: they go into the replay)


def remember(boxes, a, b, scheme):
    RECENT.append({"boxes": [list(bx) for bx in boxes], "map": [a, b], "ids": scheme})
    del RECENT[:-4]


def run_instance(rt, boxes, hitsv, qn, a, b, stride, phase):
    """Build the real index over `boxes` (ids 1..n) and compare every query with the abstract mask."""
    f = lambda x: a * x + b  # noqa: E731
    n = len(boxes)
    ids, back = id_maps(n, phase)
    remember(boxes, a, b, phase % len(ID_SCHEMES))
    try:
        with vlib.time_limit(5.0):
            idx = rt.Index([(ids[i], (f(bx[0]), f(bx[1]), f(bx[2]), f(bx[3]))) for i, bx in enumerate(boxes)])
    except (RecursionError, vlib.CallTimeout) as ex:
        return [("build.terminates", None, type(ex).__name__, None, [])], 0
    except Exception as ex:  # pylint: disable=broad-except
        # construction over a legal collection (the empty one included) raised: no query can be answered
        return [("build.raises", None, type(ex).__name__ + ": " + str(ex)[:60], None, [])], 0
    bad = []
    nq = 0
    prior = []
    for c in range(phase % stride, len(hitsv), stride):
        m = hitsv[c]
        if m < 0:
            continue
        q = q_of(c, qn)
        prior.append(list(q))
        try:
            with vlib.time_limit(5.0):
                got = idx.intersection((f(q[0]), f(q[1]), f(q[2]), f(q[3])))
        except vlib.CallTimeout:
            bad.append(("query.terminates", None, "no answer within 5 s", list(q), prior[-300:-1]))
            break
        except Exception as ex:  # pylint: disable=broad-except
            bad.append(("query.raises", None, type(ex).__name__ + ": " + str(ex)[:60], list(q), prior[-300:-1]))
            break
        nq += 1
        want = {i + 1 for i in range(n) if (m >> i) & 1}
        try:
            res = {back.get(g, -1) for g in got}        # back to positions; -1: an identifier nobody supplied
        except TypeError:
            bad.append(("query.raises", None, "result is not a collection of identifiers: %r" % (got,), list(q), prior[-300:-1]))
            break
        try:
            got.clear()                  # the result belongs to the caller: emptying it must not change what the index answers later
        except Exception:  # pylint: disable=broad-except
            pass
        got = res
        if set(got) != want:
            bad.append(("query.missed" if want - set(got) else "query.extra", sorted(want), sorted(got), list(q), prior[-300:-1]))
            if len(bad) > 3:
                break
    return bad, nq


def record(rt, rng, ncoll, nq):
    evs = []
    for _ in range(ncoll):
        n = rng.choice([0, 1, 2, 3, 5, 8, 13, 21, 40])
        L = rng.choice([4, 16, 16, 64])
        boxes = []
        for _k in range(n):
            x1, x2 = sorted((rng.randint(0, L), rng.randint(0, L)))
            y1, y2 = sorted((rng.randint(0, L), rng.randint(0, L)))
            r = rng.random()
            if r < 0.15:
                x2 = x1
            elif r < 0.30:
                y2 = y1
            elif r < 0.36:
                x2, y2 = x1, y1
            boxes.append([x1, y1, x2, y2])
        if boxes and rng.random() < 0.3:
            boxes.append(list(rng.choice(boxes)))            # duplicate
        asf = rng.random() < 0.5
        cf = float if asf else (lambda z: z)
        vmap = None
        if rng.random() < 0.3:
            vmap = rng.choice([(0.1, 0.0), (1.0 / 3.0, 0.7), (0.01, -0.3)])          # decimal coordinates (see MAPS)
            cf = lambda z, m=vmap: m[0] * z + m[1]  # noqa: E731
        scheme = rng.randrange(len(ID_SCHEMES))
        ids, back = id_maps(len(boxes), scheme)
        evs.append({"ev": "build", "boxes": boxes, "asfloat": asf, "ids": scheme, "earlier": [dict(r) for r in RECENT], "vmap": list(vmap) if vmap else None})
        remember(boxes, vmap[0] if vmap else (1.0 if asf else 1), vmap[1] if vmap else 0, scheme)
        try:
            with vlib.time_limit(10.0):
                idx = rt.Index([(ids[i], tuple(cf(v) for v in bx)) for i, bx in enumerate(boxes)])
        except (Exception, vlib.CallTimeout):  # pylint: disable=broad-except
            idx = None                    # every query of this collection is then recorded as "raised"
        for _q in range(nq):
            if boxes and rng.random() < 0.5:       # queries touching / on a box edge
                bx = rng.choice(boxes)
                x1 = rng.choice([bx[0], bx[2], bx[0] - 1, bx[2] + 1, rng.randint(-1, L + 1)])
                y1 = rng.choice([bx[1], bx[3], bx[1] - 1, bx[3] + 1, rng.randint(-1, L + 1)])
            else:
                x1, y1 = rng.randint(-1, L + 1), rng.randint(-1, L + 1)
            x2 = x1 + rng.choice([0, 0, 1, 2, rng.randint(0, L)])
            y2 = y1 + rng.choice([0, 0, 1, 2, rng.randint(0, L)])
            q = [x1, y1, x2, y2]
            if idx is None:
                evs.append({"ev": "q", "q": q, "res": [], "raised": True})
                continue
            try:
                with vlib.time_limit(5.0):
                    raw = idx.intersection(tuple(cf(v) for v in q))
                res = sorted(back.get(g, -1) for g in raw)
                try:
                    raw.clear()          # see run_instance
                except Exception:  # pylint: disable=broad-except
                    pass
                evs.append({"ev": "q", "q": q, "res": res, "raised": False})
            except (Exception, vlib.CallTimeout):  # pylint: disable=broad-except
                evs.append({"ev": "q", "q": q, "res": [], "raised": True})
    return evs


def validate(ctx, name, evs):
    wd = os.path.join(ctx.workdir, name)
    os.makedirs(wd, exist_ok=True)
    tf = os.path.join(wd, "trace.ndjson")
    with open(tf, "w") as fh:
        for e in evs:
            fh.write(json.dumps({k: v for k, v in e.items() if k not in ("earlier", "vmap")}) + "\n")
    dump = os.path.join(wd, "states")
    vlib.tlc(wd, "RTreeTrace", "RTreeTrace.cfg", workers=1, dump=dump, env={"TRACE_FILE": tf})
    verdicts = {}
    for st in vlib.read_dump(dump + ".dump", only={"i", "verdict"}):
        verdicts[st["i"]] = st["verdict"]
    os.remove(dump + ".dump")
    if len(verdicts) != len(evs) + 1:
        raise vlib.MachineryError("RTreeTrace: %d verdicts for %d events" % (len(verdicts) - 1, len(evs)))
    return [verdicts[i + 1] for i in range(len(evs))]


def run(ctx):
    rt = _rt()
    tier = ctx.tier
    rng = random.Random(ctx.seed * 7919 + 14)
    # self-test of the specification: the pinned (strict) comparisons must be refuted by TLC
    res = ctx.run_tlc("e1_strict_selftest", "RTree", "RTree_pinned.cfg", expect_ok=False, workers=4)
    if res["violated"] != "NoBoxLost":
        raise vlib.MachineryError("RTree spec self-test: strict quadrant comparisons were not refuted (vacuous NoBoxLost?)")
    ctx.stages[-1]["note"] = "expected: TLC refutes NoBoxLost for strict comparisons (counterexample: one zero-width box)"
    if tier == "thorough":
        ctx.run_tlc("e1_liveness", "RTree", "RTree_live.cfg")          # construction terminates: the work list empties on every instance
    # E1 + dump
    dump = os.path.join(ctx.workdir, "e1", "states")
    cfgs = ["RTree_quick.cfg"] + (["RTree_thorough.cfg"] if tier == "thorough" else [])
    # the empty collection is a collection: construction succeeds and every query answers the empty set
    try:
        with vlib.time_limit(5.0):
            empty_answer = list(rt.Index([]).intersection((0, 0, 1, 1)))
        if empty_answer:
            ctx.violation("query.extra", {"mode": "G", "boxes": [], "q": [0, 0, 1, 1], "map": [1, 0], "ids": 0, "prior_q": [], "earlier_indexes": []}, [], empty_answer)
    except (Exception, vlib.CallTimeout) as ex:  # pylint: disable=broad-except
        ctx.violation("build.raises", {"mode": "G", "boxes": [], "q": None, "map": [1, 0], "ids": 0, "prior_q": [], "earlier_indexes": []}, "an empty index",
                      type(ex).__name__ + ": " + str(ex)[:60])
    ctx.evaluations += 1
    for ci, cfg in enumerate(cfgs):
        qn = 5 if ci == 0 else 4
        ctx.run_tlc("e1_%d" % ci, "RTree", cfg, dump=dump, coverage=(ci == 0 and tier == "thorough"))
        ninst = 0
        stride = 1 if tier == "thorough" else 3
        for st in vlib.read_dump(dump + ".dump", only={"boxes", "hitsv", "todo"}, prefilter="todo = <<>>"):
            boxes, hitsv = st["boxes"], st["hitsv"]
            if not hitsv:
                continue
            ninst += 1
            if ctx.enough():
                continue
            maps = MAPS if tier == "thorough" else (MAPS[:1] + [MAPS[1 + (ninst // 3) % (len(MAPS) - 1)], MAPS[1 + (ninst // 3 + 2) % (len(MAPS) - 1)]] if ninst % 3 == 0 else MAPS[:1])
            for mi, (a, b) in enumerate(maps):
                bad, nq = run_instance(rt, boxes, hitsv, qn, a, b, stride, ninst + ctx.seed)
                ctx.evaluations += nq
                ctx.distinct.add((ci, ninst, mi))
                for clause, want, got, q, prior in bad:
                    degenerate = any(bx[0] == bx[2] or bx[1] == bx[3] for bx in boxes)
                    ctx.violation(clause, {"mode": "G", "boxes": boxes, "q": q, "map": [a, b], "ids": (ninst + ctx.seed) % len(ID_SCHEMES), "prior_q": prior, "earlier_indexes": RECENT[:-1]}, want, got,
                                  input_class="degenerate-box" if degenerate else None)
            if ninst % 2503 == 1:
                ctx.sample({"mode": "G", "boxes": boxes, "query_masks_head": hitsv[:12]})
        os.remove(dump + ".dump")
        ctx.traces += ninst
        ctx.stage("G_%d" % ci, kind="spec->code", instances=ninst, query_stride=stride)
    ctx.exhaustive = tier == "thorough"
    # V
    ncoll, nq = (400, 25) if tier == "quick" else (6000, 40)
    evs = record(rt, rng, ncoll if not ctx.enough() else 20, nq)
    verdicts = validate(ctx, "v", evs)
    cur = None
    cur_qs = []
    for e, v in zip(evs, verdicts):
        if e["ev"] == "build":
            cur = e
            cur_qs = []
            continue
        cur_qs.append(e["q"])
        ctx.evaluations += 1
        if v == "skip":
            ctx.skipped += 1
        elif v != "ok":
            degenerate = any(bx[0] == bx[2] or bx[1] == bx[3] for bx in cur["boxes"])
            ctx.violation(v, {"mode": "V", "boxes": cur["boxes"], "asfloat": cur["asfloat"], "ids": cur["ids"], "vmap": cur.get("vmap"), "q": e["q"], "prior_q": cur_qs[-300:-1], "earlier_indexes": cur.get("earlier", [])}, None, e["res"],
                          input_class="degenerate-box" if degenerate else None)
    ctx.distinct.update(("V", i) for i in range(ncoll))
    ctx.traces += ncoll
    ctx.sample({"mode": "V", "events": evs[:3]})
    ctx.stage("V", kind="code->spec", collections=ncoll, events=len(evs), rejected=sum(1 for v in verdicts if v not in ("ok", "skip")))
    ctx.trusted += ["TLC 1.8", "vlib TLA value parser", "harness/c14.py query decoding (q_of mirrors RTree!QOf)"]
    ctx.assumptions += ["boxes and queries on integer lattices (and exact affine images); centre rounding off-lattice is not modelled",
                        "identifiers rotate over five schemes (1-based, 0-based, strings, tuples, sparse numbers) and are mapped back to positions before judging",
                        "the set an intersection() call returns belongs to the caller: the harness empties it, which must not change later answers"]
    return ctx.finish(
        rule="G: every multiset of <=3 boxes (corners {0,2,4}) [thorough: also <=4 boxes on {0,2}] built by the real Index, queried with "
             "the lattice of query boxes (quick: every 3rd query, rotating), expected set = abstract Hits mask from the TLC state; "
             "V: seeded random collections up to 41 boxes (36% degenerate, duplicates) x touching/edge queries judged by RTreeTrace; "
             "distinct = distinct (instance,map) or random collection; evaluations = queries",
        explanation="RTree.tla models construction as a work-list of Split steps with the code's quadrant comparisons and the pruned recursive "
                    "query; TLC proves NoBoxLost/ChildrenSmaller/QueryEqualsHits for all instances and refutes NoBoxLost for the pinned strict comparisons.")


def replay(rec):
    rt = _rt()
    c = rec["case"]
    if c["mode"] == "G":
        a, b = c["map"]
        cf = lambda x: a * x + b  # noqa: E731
    elif c.get("vmap"):
        cf = lambda z: c["vmap"][0] * z + c["vmap"][1]  # noqa: E731
    else:
        cf = float if c.get("asfloat") else (lambda z: z)
    keep = []
    for old in c.get("earlier_indexes", []):             # indexes that existed before this one (state shared between Index objects would show here)
        oa, ob = old["map"]
        oids, _b = id_maps(len(old["boxes"]), old["ids"])
        keep.append(rt.Index([(oids[i], tuple(oa * v + ob for v in bx)) for i, bx in enumerate(old["boxes"])]))
    ids, back = id_maps(len(c["boxes"]), c.get("ids", 0))
    try:
        idx = rt.Index([(ids[i], tuple(cf(v) for v in bx)) for i, bx in enumerate(c["boxes"])])
    except Exception as ex:  # pylint: disable=broad-except
        return False, {"verdict": "build.raises", "exception": type(ex).__name__ + ": " + str(ex)[:60]}
    q = c["q"]
    if q is None:
        return True, {"verdict": "ok", "note": "construction succeeded"}
    for pq in c.get("prior_q", []):                      # the queries made on this index before the failing one, results emptied as the check does
        try:
            idx.intersection(tuple(cf(v) for v in pq)).clear()
        except Exception:  # pylint: disable=broad-except
            pass
    got = sorted(back.get(g, -1) for g in idx.intersection(tuple(cf(v) for v in q)))
    ctx = vlib.Ctx("C14", "quick", 0, LEVEL, fresh=False)
    v = validate(ctx, "replay", [{"ev": "build", "boxes": c["boxes"], "asfloat": False},
                                 {"ev": "q", "q": q, "res": got, "raised": False}])[1]
    return v in ("ok", "skip"), {"verdict": v, "got": got}
