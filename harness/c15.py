"""C15 - firmware version gating. Specs: Versions (numeric order, legacy gate table), EBB3Link (connect handshake), EBB3Trace (focus C15)."""
import logging
import os

import ebbfake
import ebb3lib as L
import vlib
import c05

LEVEL = "model_checking"
FOCUS = "C15"
ALL_DEVS = ("ebb_ok", "ebb_late", "ebb_old", "ebb_late_old", "ebb_noversion", "ebb_in_text", "non_ebb", "other_versioned", "silent", "unopenable", "absent", "raise_on_probe") + L.VERSION_DEVS


def vs(t):
    return "%d.%d.%d" % tuple(t)


def versions_stage(ctx):
    from plotink import ebb_serial, ebb_motion, ebb3_serial
    from packaging.version import parse
    ebb_serial.logger.handlers = [logging.NullHandler()]
    ebb_serial.logger.propagate = False
    dump = os.path.join(ctx.workdir, "versions", "states")
    ctx.run_tlc("e1.versions", "Versions", "Versions_%s.cfg" % ctx.tier, dump=dump)
    n = 0
    prev = []
    for st in vlib.read_dump(dump + ".dump"):
        n += 1
        v, t, exp = st["v"], st["t"], st["exp"]
        this = {"k": "order", "version": vs(v), "threshold": vs(t)} if st["kind"] == "order" else {"k": "gate", "gate": st["gate"], "version": vs(v), "threshold": vs(t)}
        if st["kind"] == "order":
            ctx.count(("order", tuple(v), tuple(t)))
            port = ebbfake.LegacyOKPort(version=vs(v))
            try:
                got_l = ebb_serial.min_version(port, vs(t))
            except (Exception, ebbfake.Endless) as ex:  # pylint: disable=broad-except
                got_l = "raised " + type(ex).__name__
            obj = ebb3_serial.EBB3()
            try:
                obj.parse_version(L.VERSION_LINE % vs(v))          # as connect() learns it, from the identification line
                got_3 = obj.min_version(vs(t))
            except Exception as ex:  # pylint: disable=broad-except
                got_3 = "raised " + type(ex).__name__
            if got_l is not exp:
                ctx.violation("version.numeric_order_legacy", {"mode": "G", "k": "order", "version": vs(v), "threshold": vs(t), "previous": prev}, exp, repr(got_l))
            if got_3 is not exp:
                ctx.violation("version.numeric_order_ebb3", {"mode": "G", "k": "order", "version": vs(v), "threshold": vs(t), "previous": prev}, exp, repr(got_3))
        else:
            g = st["gate"]
            ctx.count(("gate", g, tuple(v)))
            port = ebbfake.LegacyOKPort(version=vs(v))
            try:
                {"servo_timeout": lambda: ebb_motion.servo_timeout(port, 60000, 1), "query_voltage": lambda: ebb_motion.queryVoltage(port),
                 "query_nickname": lambda: ebb_serial.query_nickname(port), "write_nickname": lambda: ebb_serial.write_nickname(port, "Lab"),
                 "reboot": lambda: ebb_serial.reboot(port)}[g]()
                names = [ebbfake.req_name(w) for w in port.writes]
                cmd = {"servo_timeout": "SR", "query_voltage": "QC", "query_nickname": "QT", "write_nickname": "ST", "reboot": "RB"}[g]
                sent = cmd in names
                extra = [x for x in names if x.upper() != "V" and x != cmd]
                if sent is not exp or extra:
                    ctx.violation("version.legacy_gate_" + g, {"mode": "G", "k": "gate", "gate": g, "version": vs(v), "threshold": vs(t), "previous": prev},
                                  {"command_sent": exp}, {"writes": port.writes})
            except (Exception, ebbfake.Endless) as ex:  # pylint: disable=broad-except
                ctx.violation("version.legacy_gate_" + g, {"mode": "G", "k": "gate", "gate": g, "version": vs(v), "threshold": vs(t), "previous": prev}, {"command_sent": exp},
                              "raised " + type(ex).__name__)
        prev = (prev + [this])[-3:]
        if n % 1499 == 1:
            ctx.sample({"mode": "G", "kind": st["kind"], "version": vs(v), "threshold": vs(t), "gate": st["gate"], "expected": exp})
    os.remove(dump + ".dump")
    # a board that reports no version at all (identifies without one, or does not answer): no gated command may go out
    gates = {"servo_timeout": (lambda p: ebb_motion.servo_timeout(p, 60000, 1), "SR"), "query_voltage": (lambda p: ebb_motion.queryVoltage(p), "QC"),
             "query_nickname": (lambda p: ebb_serial.query_nickname(p), "QT"), "write_nickname": (lambda p: ebb_serial.write_nickname(p, "Lab"), "ST"),
             "reboot": (lambda p: ebb_serial.reboot(p), "RB")}
    for g, (fn, cmd) in gates.items():
        for ver, what in ((None, "no version in the identification line"), ("", "no answer to the version query")):
            ctx.count(("gate_noversion", g, what))
            port = ebbfake.LegacyOKPort(version=ver)
            try:
                fn(port)
                names = [ebbfake.req_name(w) for w in port.writes]
                if cmd in names or [x for x in names if x.upper() != "V"]:
                    ctx.violation("version.legacy_gate_" + g, {"mode": "G", "k": "gate", "gate": g, "version": what}, {"command_sent": False}, {"writes": port.writes})
            except Exception as ex:  # pylint: disable=broad-except
                ctx.violation("version.legacy_gate_" + g, {"mode": "G", "k": "gate", "gate": g, "version": what}, {"command_sent": False}, "raised " + type(ex).__name__)
    ctx.traces += n
    ctx.stage("versions.G", kind="spec->code", vectors=n, versionless_gate_calls=2 * len(gates))


def run(ctx):
    q = ctx.tier == "quick"
    c05.pinned_selftests(ctx, "EBB3Link_c15.cfg", [("FixConnect", "ConnectFalseRecords", "connect() leaves the port open on unsupported firmware: the second connect() returns True")])
    c05.pinned_selftests(ctx, "EBB3Link_c15r.cfg", [("FixStale", "ProbeOnly", "a version cached from an earlier board lets a version-less device pass the gate after a replug")])
    ctx.run_tlc("e1.connect", "EBB3LinkMC", "EBB3Link_c15.cfg" if q else "EBB3Link_c15_deep.cfg", coverage=q)
    ctx.run_tlc("e1.replug", "EBB3LinkMC", "EBB3Link_c15r.cfg")        # the environment swaps the device between connects
    versions_stage(ctx)
    L.check_dev_versions()
    c05.g_scripts(ctx, FOCUS, "gen_versions", "EBB3Link_gen15v.cfg", 2, False)        # the gate at its edge: 3.0.2, 3.0.1, 3.0.10, 10.0.0, 2.10.9
    c05.g_scripts(ctx, FOCUS, "gen_connect", "EBB3Link_gen15.cfg", 3, False, every=6 if q else 1)
    c05.g_scripts(ctx, FOCUS, "gen_replug", "EBB3Link_gen15r.cfg", 3, False, every=5 if q else 1)      # the device is swapped between connects
    c05.v_histories(ctx, FOCUS, 90 if q else 4000, 12, 0.08, 15, devs=ALL_DEVS, start_connected=False,
                    alphabet=["connect", "connect", "connect", "disconnect"] + L.ALL_METHODS)
    ctx.exhaustive = True
    ctx.trusted += ["TLC 1.8", "harness/ebb3lib.py ScriptedPort device kinds and the stubbed serial.Serial / comports", "ebbfake.LegacyOKPort", "vlib parser"]
    ctx.assumptions += ["device kinds: supported EBB answering the first or only the second probe, EBBs with firmware 2.8.1 / 3.0.1 / 2.10.9 (too old) and 3.0.2 / 3.0.10 / 10.0.0 (supported), an EBB line without version, a foreign banner containing the letters, non-EBB text, silent, unopenable, "
                        "not enumerated, raising on the probe read; no fault is injected into the CU,10,1 step of the handshake",
                        "an identification line always carries 'Firmware Version a.b.c' (a device saying EBB without a version is outside the statement)"]
    return ctx.finish(
        rule="G: every (version, threshold) pair over components {0,2,9,10} (thorough {0,2,3,9,10,11}) through both layers' min_version; every legacy gate on "
             "versions straddling its threshold; every complete 3-call history of the connect model (8 device kinds x connect/disconnect/requests, <=1 fault) "
             "executed with serial.Serial and comports stubbed; V: random 12-call histories starting unconnected against all device kinds; distinct = vectors/scripts",
        explanation="TLC checks the handshake machine (resolve, open, probe twice, verify, version gate, CU,10,1, nickname) for ConnectTrueOnlyIfSupported, "
                    "ConnectFalseRecords (for every connect of the history) and ProbeOnly, refutes the pinned port-left-open behaviour, and checks the version "
                    "order is total, antisymmetric and numeric; the real layers are judged against the enumerated vectors and by EBB3Trace (focus C15).")


GATES = {"servo_timeout": ("SR", "2.6.0"), "query_voltage": ("QC", "2.2.3"), "query_nickname": ("QT", "2.5.5"), "write_nickname": ("ST", "2.5.5"), "reboot": ("RB", "2.5.5")}


def replay_vector(c):
    """one version vector again (after the vector that preceded it in the run, whose port object has gone away by then): the real answer, judged by TLC"""
    keep = None
    for old in c.get("previous") or []:                  # as in the run: each port object is released only after the next one exists
        _e, _s, port = exec_vector(old)
        keep = port
    evs, seen, port = exec_vector(c)
    del keep
    ctx = vlib.Ctx("C15", "quick", 0, LEVEL, fresh=False)
    vs, _st = vlib.judge_events(os.path.join(ctx.workdir, "replay_v"), "VersionsTrace", "VersionsTrace.cfg", evs)
    if all(v == "ok" for v in vs) and c.get("previous"):
        # the vector holds on its own: what was observed may depend on everything the stage did before it (state kept between calls, object
        # addresses reused) - run the whole vector stage again and look for the same clause
        import glob
        import json
        sub = vlib.Ctx("C15", "quick", 0, LEVEL, fresh=False)
        sub.replaydir = os.path.join(sub.workdir, "replay_stage")
        versions_stage(sub)
        same = []
        for path in [p for p in sub.violations if p]:
            r = json.load(open(path))
            if r["clause"] == c.get("_clause", r["clause"]):
                same.append(r["case"])
        return not same, {"verdicts": vs, "observed": seen, "whole_stage_again": {"violations": len([p for p in sub.violations if p]), "first": same[:1]}}
    return all(v == "ok" for v in vs), {"verdicts": vs, "observed": seen}


def exec_vector(c):
    from plotink import ebb_serial, ebb_motion, ebb3_serial
    ebb_serial.logger.handlers = [logging.NullHandler()]
    ebb_serial.logger.propagate = False
    tri = lambda s: [int(x) for x in s.split(".")]  # noqa: E731
    ver = c["version"]
    if c["k"] == "order":
        port = ebbfake.LegacyOKPort(version=ver)
        got_l = ebb_serial.min_version(port, c["threshold"])
        obj = ebb3_serial.EBB3()
        obj.parse_version(L.VERSION_LINE % ver)
        got_3 = obj.min_version(c["threshold"])
        evs = [{"v": tri(ver), "t": tri(c["threshold"]), "got": got_l is True, "extra": got_l not in (True, False), "clause": "version.numeric_order_legacy"},
               {"v": tri(ver), "t": tri(c["threshold"]), "got": got_3 is True, "extra": got_3 not in (True, False), "clause": "version.numeric_order_ebb3"}]
        seen = {"legacy": repr(got_l), "ebb3": repr(got_3)}
    else:
        g = c["gate"]
        cmd, thr = GATES[g]
        versionless = not ver[:1].isdigit()
        port = ebbfake.LegacyOKPort(version=(None if "identification" in ver else "") if versionless else ver)
        fn = {"servo_timeout": lambda: ebb_motion.servo_timeout(port, 60000, 1), "query_voltage": lambda: ebb_motion.queryVoltage(port),
              "query_nickname": lambda: ebb_serial.query_nickname(port), "write_nickname": lambda: ebb_serial.write_nickname(port, "Lab"),
              "reboot": lambda: ebb_serial.reboot(port)}[g]
        try:
            fn()
            raised = False
        except Exception:  # pylint: disable=broad-except
            raised = True
        names = [ebbfake.req_name(w) for w in port.writes]
        evs = [{"v": [0, 0, 0] if versionless else tri(ver), "t": tri(thr), "got": cmd in names,
                "extra": raised or bool([x for x in names if x.upper() != "V" and x != cmd]), "clause": "version.legacy_gate_" + g}]
        seen = {"writes": port.writes, "raised": raised}
    return evs, seen, port


def replay(rec):
    c = rec["case"]
    if c.get("k") in ("order", "gate"):
        c["_clause"] = rec.get("clause")
        return replay_vector(c)
    if rec.get("clause") == "connect.supported_board_is_accepted":
        # the stage-level observation again, in its smallest form: a supported board that answers the first probe
        sess = L.Session("ebb_ok", False, None, lambda text: {"w": "ok", "e": 0, "o": "conf", "r": L.PyBoard().reply(text)})
        try:
            r = sess.run_call("connect", [], "")
        finally:
            sess.close()
        return r["ret"] == ["bool", True] and not r["err_set"], {"connect_returned": r["val"], "error_recorded": r["err_set"], "raised": r.get("exc")}
    c.setdefault("start_connected", False)
    return c05.replay(rec)
