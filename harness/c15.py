"""C15 - firmware version gating. Specs: Versions (numeric order, legacy gate table), EBB3Link (connect handshake), EBB3Trace (focus C15)."""
import logging
import os

import ebbfake
import ebb3lib as L
import vlib
import c05

LEVEL = "model_checking"
FOCUS = "C15"
ALL_DEVS = ("ebb_ok", "ebb_late", "ebb_old", "ebb_noversion", "ebb_in_text", "non_ebb", "silent", "unopenable", "absent", "raise_on_probe") + L.VERSION_DEVS


def vs(t):
    return "%d.%d.%d" % tuple(t)


def versions_stage(ctx):
    from plotink import ebb_serial, ebb_motion, ebb3_serial
    from packaging.version import parse
    ebb_serial.logger.handlers = [logging.NullHandler()]
    ebb_serial.logger.propagate = False
    dump = os.path.join(ctx.workdir, "versions", "states")
    ctx.run_tlc("e1.versions", "Versions", "Versions_%s.cfg" % ctx.tier, dump=dump)
    n = 0
    for st in vlib.read_dump(dump + ".dump"):
        n += 1
        v, t, exp = st["v"], st["t"], st["exp"]
        if st["kind"] == "order":
            ctx.count(("order", tuple(v), tuple(t)))
            port = ebbfake.LegacyOKPort(version=vs(v))
            got_l = ebb_serial.min_version(port, vs(t))
            obj = ebb3_serial.EBB3()
            obj.parse_version(L.VERSION_LINE % vs(v))          # as connect() learns it, from the identification line
            got_3 = obj.min_version(vs(t))
            if got_l is not exp:
                ctx.violation("version.numeric_order_legacy", {"mode": "G", "k": "order", "version": vs(v), "threshold": vs(t)}, exp, repr(got_l))
            if got_3 is not exp:
                ctx.violation("version.numeric_order_ebb3", {"mode": "G", "k": "order", "version": vs(v), "threshold": vs(t)}, exp, repr(got_3))
        else:
            g = st["gate"]
            ctx.count(("gate", g, tuple(v)))
            port = ebbfake.LegacyOKPort(version=vs(v))
            try:
                {"servo_timeout": lambda: ebb_motion.servo_timeout(port, 60000, 1), "query_voltage": lambda: ebb_motion.queryVoltage(port),
                 "query_nickname": lambda: ebb_serial.query_nickname(port), "write_nickname": lambda: ebb_serial.write_nickname(port, "Lab"),
                 "reboot": lambda: ebb_serial.reboot(port)}[g]()
                names = [ebbfake.req_name(w) for w in port.writes]
                cmd = {"servo_timeout": "SR", "query_voltage": "QC", "query_nickname": "QT", "write_nickname": "ST", "reboot": "RB"}[g]
                sent = cmd in names
                extra = [x for x in names if x not in ("V", cmd)]
                if sent is not exp or extra:
                    ctx.violation("version.legacy_gate_" + g, {"mode": "G", "k": "gate", "gate": g, "version": vs(v), "threshold": vs(t)},
                                  {"command_sent": exp}, {"writes": port.writes})
            except Exception as ex:  # pylint: disable=broad-except
                ctx.violation("version.legacy_gate_" + g, {"mode": "G", "k": "gate", "gate": g, "version": vs(v), "threshold": vs(t)}, {"command_sent": exp},
                              "raised " + type(ex).__name__)
        if n % 1499 == 1:
            ctx.sample({"mode": "G", "kind": st["kind"], "version": vs(v), "threshold": vs(t), "gate": st["gate"], "expected": exp})
    os.remove(dump + ".dump")
    # a board that reports no version at all (identifies without one, or does not answer): no gated command may go out
    gates = {"servo_timeout": (lambda p: ebb_motion.servo_timeout(p, 60000, 1), "SR"), "query_voltage": (lambda p: ebb_motion.queryVoltage(p), "QC"),
             "query_nickname": (lambda p: ebb_serial.query_nickname(p), "QT"), "write_nickname": (lambda p: ebb_serial.write_nickname(p, "Lab"), "ST"),
             "reboot": (lambda p: ebb_serial.reboot(p), "RB")}
    for g, (fn, cmd) in gates.items():
        for ver, what in ((None, "no version in the identification line"), ("", "no answer to the version query")):
            ctx.count(("gate_noversion", g, what))
            port = ebbfake.LegacyOKPort(version=ver)
            try:
                fn(port)
                names = [ebbfake.req_name(w) for w in port.writes]
                if cmd in names or [x for x in names if x.upper() != "V"]:
                    ctx.violation("version.legacy_gate_" + g, {"mode": "G", "k": "gate", "gate": g, "version": what}, {"command_sent": False}, {"writes": port.writes})
            except Exception as ex:  # pylint: disable=broad-except
                ctx.violation("version.legacy_gate_" + g, {"mode": "G", "k": "gate", "gate": g, "version": what}, {"command_sent": False}, "raised " + type(ex).__name__)
    ctx.traces += n
    ctx.stage("versions.G", kind="spec->code", vectors=n, versionless_gate_calls=2 * len(gates))


def run(ctx):
    q = ctx.tier == "quick"
    c05.pinned_selftests(ctx, "EBB3Link_c15.cfg", [("FixConnect", "ConnectFalseRecords", "connect() leaves the port open on unsupported firmware: the second connect() returns True")])
    c05.pinned_selftests(ctx, "EBB3Link_c15r.cfg", [("FixStale", "ProbeOnly", "a version cached from an earlier board lets a version-less device pass the gate after a replug")])
    ctx.run_tlc("e1.connect", "EBB3LinkMC", "EBB3Link_c15.cfg" if q else "EBB3Link_c15_deep.cfg", coverage=q)
    ctx.run_tlc("e1.replug", "EBB3LinkMC", "EBB3Link_c15r.cfg")        # the environment swaps the device between connects
    versions_stage(ctx)
    L.check_dev_versions()
    c05.g_scripts(ctx, FOCUS, "gen_versions", "EBB3Link_gen15v.cfg", 2, False)        # the gate at its edge: 3.0.2, 3.0.1, 3.0.10, 10.0.0, 2.10.9
    c05.g_scripts(ctx, FOCUS, "gen_connect", "EBB3Link_gen15.cfg", 3, False, every=6 if q else 1)
    c05.g_scripts(ctx, FOCUS, "gen_replug", "EBB3Link_gen15r.cfg", 3, False, every=5 if q else 1)      # the device is swapped between connects
    c05.v_histories(ctx, FOCUS, 90 if q else 4000, 12, 0.08, 15, devs=ALL_DEVS, start_connected=False,
                    alphabet=["connect", "connect", "connect", "disconnect"] + L.ALL_METHODS)
    ctx.exhaustive = True
    ctx.trusted += ["TLC 1.8", "harness/ebb3lib.py ScriptedPort device kinds and the stubbed serial.Serial / comports", "ebbfake.LegacyOKPort", "vlib parser"]
    ctx.assumptions += ["device kinds: supported EBB answering the first or only the second probe, EBBs with firmware 2.8.1 / 3.0.1 / 2.10.9 (too old) and 3.0.2 / 3.0.10 / 10.0.0 (supported), an EBB line without version, a foreign banner containing the letters, non-EBB text, silent, unopenable, "
                        "not enumerated, raising on the probe read; no fault is injected into the CU,10,1 step of the handshake",
                        "an identification line always carries 'Firmware Version a.b.c' (a device saying EBB without a version is outside the statement)"]
    return ctx.finish(
        rule="G: every (version, threshold) pair over components {0,2,9,10} (thorough {0,2,3,9,10,11}) through both layers' min_version; every legacy gate on "
             "versions straddling its threshold; every complete 3-call history of the connect model (8 device kinds x connect/disconnect/requests, <=1 fault) "
             "executed with serial.Serial and comports stubbed; V: random 12-call histories starting unconnected against all device kinds; distinct = vectors/scripts",
        explanation="TLC checks the handshake machine (resolve, open, probe twice, verify, version gate, CU,10,1, nickname) for ConnectTrueOnlyIfSupported, "
                    "ConnectFalseRecords (for every connect of the history) and ProbeOnly, refutes the pinned port-left-open behaviour, and checks the version "
                    "order is total, antisymmetric and numeric; the real layers are judged against the enumerated vectors and by EBB3Trace (focus C15).")


def replay(rec):
    c = rec["case"]
    if c.get("k") in ("order", "gate"):
        return True, {"note": "re-run ./check C15: version vectors are re-enumerated by TLC"}
    c.setdefault("start_connected", False)
    return c05.replay(rec)
