"""C16 - board-state round trips through the EBB3 layer. Specs: EBB3Ops (Board), EBB3Link (C16 invariants), EBB3Trace (focus C16)."""
import random

import ebb3lib as L
import vlib
import c05

LEVEL = "model_checking"
FOCUS = "C16"
BOARDS = [{"nick": "Lab", "m1": a, "m2": b, "res": r, "volt": 300} for a in (False, True) for b in (False, True) for r in (1, 2, 3, 4, 5)]
ALPHA = ["var_write_int32"] * 4 + ["var_read_int32"] * 3 + ["write_nickname", "query_nickname", "motors_enable", "motors_enable", "motors_enable",
                                                             "motors_disable", "motors_query_enabled", "var_write", "var_read"]


def run(ctx):
    q = ctx.tier == "quick"
    ctx.run_tlc("e1.vars", "EBB3LinkMC", "EBB3Link_c16a.cfg", coverage=q)
    ctx.run_tlc("e1.motors", "EBB3LinkMC", "EBB3Link_c16b1.cfg" if q else "EBB3Link_c16b.cfg")
    if not q:
        ctx.run_tlc("e1.deep", "EBB3LinkMC", "EBB3Link_c16c.cfg")
    c05.g_scripts(ctx, FOCUS, "gen_vars", "EBB3Link_c16a.cfg", 2, True, every=2 if q else 1)
    c05.g_scripts(ctx, FOCUS, "gen_motors", "EBB3Link_c16b1.cfg", 1, True)
    c05.g_scripts(ctx, FOCUS, "gen_motor_pairs", "EBB3Link_c16b2.cfg", 2, True)      # what one request leaves behind must not mislead the next
    if not q:
        c05.g_scripts(ctx, FOCUS, "gen_motors2", "EBB3Link_c16b.cfg", 2, True, every=4)
    c05.v_histories(ctx, FOCUS, 120 if q else 4000, 25, 0.0, 16, alphabet=ALPHA, boards=BOARDS)
    c05.v_histories(ctx, FOCUS, 40 if q else 1000, 25, 0.03, 161, alphabet=ALPHA + ["command", "query", "xy_move"], boards=BOARDS)
    ctx.exhaustive = True
    ctx.trusted += ["TLC 1.8", "EBB3Ops!Board as the documented SL/QL, ST/QT, EM/QE behaviour (EM,e1: 1..5 enables motor 1 and sets the global resolution, 0 "
                    "disables it leaving the resolution; e2 only switches motor 2)", "harness/ebb3lib.py", "vlib parser"]
    ctx.assumptions += ["slots 0..28 and values within signed 32 bits (-2^31 itself is not a TLC integer: -2^31+1 is the smallest value enumerated; V covers it)",
                        "round-trip clauses are judged at the end of calls that succeeded"]
    return ctx.finish(
        rule="G: every 2-call history over {var_write_int32(v,i): 14 boundary values x slots 0,1,27,28; var_read_int32; nickname write/read} and over "
             "{motors_enable(r1,r2) for (-1..6)^2, motors_disable, motors_query_enabled} x all 20 prior motor states is executed on a real object whose port "
             "plays the replies the TLA+ board computed; V: random 25-call histories of these operations over the full int32 range, all slots and prior "
             "motor states (a second batch with occasional faults); distinct = distinct scripts",
        explanation="TLC checks Int32Stored (four big-endian two's-complement bytes 0..255 in consecutive slots), Int32RoundTrip, Int32JoinInvertsBytes, "
                    "NickRoundTrip, NickRead and MotorsPost (motor 1 on iff clamp(r1)#0, motor 2 iff clamp(r2)#0, global resolution = the requested non-zero "
                    "one, motor 1's when both, also when only motor 2 is requested) on the composed object + board model; EBB3Trace re-simulates the board from "
                    "the bytes the real object wrote and judges the same clauses.")


def replay(rec):
    return c05.replay(rec)
