"""C17 - reported peak T3 rate brackets the true peak. Specs: Stepper (PeakBracket, MaxRateImpl), StepperLeap (PeakL), StepperTrace."""
import steplib as S
import vlib
import c02

LEVEL = "model_checking"


def impl_max_rate(r, a, j, T):
    """the impl-shaped operator MaxRateImpl of Stepper.tla, for DRIFT reporting only"""
    vs, ve = abs(S.rate_at(r, a, j, 1)), abs(S.rate_at(r, a, j, T))
    if T <= 1:
        return vs
    if j == 0:
        return max(vs, ve)
    sg = 1 if j > 0 else -1
    num, den = sg * (j - 2 * a), sg * 2 * j
    if 3 * den < 2 * num and 2 * num < (2 * T - 3) * den:
        return max(vs, ve, abs(S.rate_at(r, a, j, -((-num) // den))))
    return max(vs, ve)


def bracket_clause(m, peak, r1, rT, j):
    if not S.is_int(m):
        return "peak.not_integer"
    if m > peak:
        return "peak.exceeds_true_peak"
    if m < r1:
        return "peak.below_first_tick"
    if m < rT:
        return "peak.below_last_tick"
    if peak - m > abs(j):
        return "peak.short_by_more_than_jerk"
    return None


def g_peak(ctx, ec, cfg):
    events = []
    seen = []
    for st in S.stepped_vectors(ctx, "g_full", cfg):
        c = st["cmd"]
        r, a, j, T = c["r"], c["a"], c["j"], st["tick"]
        if c["c"] not in (0, S.CLEAR):
            continue                       # the peak does not depend on the accumulator
        if c["c"] == S.CLEAR and 0 in st.get("_accs", ()):
            continue
        ctx.count(("G", r, a, j, T))
        seen.append((T, r, a, j, st["peak"], st["rate1"], abs(st["rate"])))
        m = S.call(ec.max_rate_t3, T, r, a, j)
        case = {"mode": "G", "T": T, "rate": r, "accel": a, "jerk": j}
        peak, r1, rT = st["peak"], st["rate1"], abs(st["rate"])
        if not S.is_int(m):
            ctx.violation("peak.raises" if isinstance(m, S.Raised) else "peak.not_integer", case, "integer", repr(m))
        elif m > peak:
            ctx.violation("peak.exceeds_true_peak", case, {"true_peak": peak}, m)
        elif m < r1:
            ctx.violation("peak.below_first_tick", case, {"first_tick": r1}, m)
        elif m < rT:
            ctx.violation("peak.below_last_tick", case, {"last_tick": rT}, m)
        elif peak - m > abs(j):
            ctx.violation("peak.short_by_more_than_jerk", case, {"true_peak": peak, "jerk": j}, m)
        elif m != impl_max_rate(r, a, j, T):
            ctx.note_drift("max_rate_t3 differs from the impl-shaped MaxRateImpl (statement still satisfied)", case)
        if len(events) < 30000 and (T <= 3 or (r + a + T) % 3 == 0):
            events.append(dict(S.ev_val("max", r, a, j, T, peak, 15), _peak=peak))       # the stepped TRUE peak must satisfy the leap's bracket trivially
            events.append(dict(S.ev_val("max", r, a, j, T, peak + 1, 15), _peak=peak))   # ... and one above it must not: PeakL equals the stepped peak exactly
        if ctx.evaluations % 4001 == 1:
            ctx.sample({"mode": "G", "T": T, "rate": r, "accel": a, "jerk": j, "stepped_peak": peak, "first": r1, "last": rT, "max_rate_t3": m})
    # second pass in the opposite order (long moves first, then shorter ones of the same command): the answer may not depend on what was asked before
    longest = {}
    for (T, r, a, j, _p, _r1, _rT) in seen:
        longest[(r, a, j)] = max(T, longest.get((r, a, j), 0))
    for (T, r, a, j, peak, r1, rT) in reversed(seen):
        cl = bracket_clause(S.call(ec.max_rate_t3, T, r, a, j), peak, r1, rT, j)
        if cl:
            ctx.violation(cl, {"mode": "G", "T": T, "rate": r, "accel": a, "jerk": j, "order": "after longer moves of the same command",
                               "prelude_T": longest[(r, a, j)]},
                          {"true_peak": peak, "first_tick": r1, "last_tick": rT}, "differs when asked after a longer move")
            if ctx.enough(20):
                break
    vs = S.judge(ctx, "g_cross", [{k: v for k, v in e.items() if k != "_peak"} for e in events])
    off = [(e, v) for e, v in zip(events, vs) if v != ("ok" if vlib.from_limbs(e["val"]) == e["_peak"] else "peak.exceeds_true_peak")]
    if off:
        raise vlib.MachineryError("stepped true peak rejected by StepperLeap!PeakL (%s): %r" % (off[0][1], off[0][0]))
    ctx.stage("g_cross", kind="oracle cross-check", stepped_peaks_judged_by_leap=len(events))
    ctx.traces += ctx.evaluations


def v_peak(ctx, ec, n):
    rng = S.rng_for(ctx, 1717)
    events = []
    for _ in range(n):
        T, r, a, j, _c = c02.draw_t3(rng)
        if rng.random() < 0.5 and j != 0 and T >= 4:
            # aim the turning point at the ends of the window the code samples (1.5 .. T-1.5) and strictly inside
            tm2 = rng.choice([3, 4, 5, 2 * T - 5, 2 * T - 4, 2 * T - 3, 2 * T - 2, rng.randint(3, 2 * T)])   # 2*t_mid
            # t_mid = 1/2 - a/j  ->  a = j*(1 - tm2)/2 ; pick a so that a/j is close
            a2 = (j * (1 - tm2)) // 2 + rng.choice([0, 0, 1, -1, j // 3, -(j // 3)])
            if abs(a2) <= S.MM1:
                lo = max(abs(S.rate_at(0, a2, j, k)) for k in {1, T, max(1, min(T, tm2 // 2)), max(1, min(T, tm2 // 2 + 1))})
                if lo <= S.MM1:
                    r2 = rng.randint(-(S.MM1 - lo), S.MM1 - lo) if rng.random() < 0.7 else rng.choice([-1, 1]) * (S.MM1 - lo)
                    if S.in_domain(r2, a2, j, T):
                        r, a = r2, a2
        if rng.random() < 0.2:
            # overshoot: the move exceeds the 2^31-1 limit somewhere (the helper's purpose is to notice); push the start rate up or down
            sh = rng.choice([-1, 1]) * rng.randint(1, 3 * S.M)
            if abs(r + sh) <= S.MM1 and S.in_domain(r + sh, a, j, T, lo=-8 * S.M, hi=8 * S.M):
                r += sh
        events.append(S.ev_val("max", r, a, j, T, S.call(ec.max_rate_t3, T, r, a, j), 15))
    vs = S.judge(ctx, "v", events)
    rej = 0
    for e, v in zip(events, vs):
        if v == "skip":
            ctx.skipped += 1
            continue
        ctx.count(("V", e["r"], e["a"], e["j"], tuple(e["T"]["d"])))
        if v != "ok":
            rej += 1
            ctx.violation(v, {"mode": "V", "T": vlib.from_limbs(e["T"]), "rate": e["r"], "accel": e["a"], "jerk": e["j"]}, "PeakBracket", e["raw"])
    ctx.traces += len(events)
    e0 = events[0]
    ctx.sample({"mode": "V", "T": vlib.from_limbs(e0["T"]), "rate": e0["r"], "accel": e0["a"], "jerk": e0["j"], "max_rate_t3": e0["raw"], "verdict": vs[0]})
    ctx.stage("V", kind="code->spec", events=len(events), rejected=rej)


def run(ctx):
    ec, _em, mp = S.mods()
    q = ctx.tier == "quick"
    ctx.run_tlc("e1.bigint", "BigIntTest", "BigIntTest_%s.cfg" % ctx.tier)
    ctx.run_tlc("e1.stepper_t3", "StepperMC", "Stepper_small_t3.cfg", coverage=True)
    ctx.run_tlc("e1.leap", "StepperLeapMC", "StepperLeap_t3_quick.cfg" if q else "StepperLeap_thorough.cfg")
    ctx.run_tlc("e1.leap_domain", "StepperLeapMC", "StepperLeap_domain.cfg")
    g_peak(ctx, ec, "Stepper_full_t3_%s.cfg" % ctx.tier)
    v_peak(ctx, ec, 4000 if q else 200000)
    ctx.exhaustive = True
    ctx.trusted += ["TLC 1.8", "BigInt.tla", "StepperLeap!PeakL (checked equal to the stepped peak on the small universe and on the full-scale vectors)",
                    "vlib TLA value parser", "harness limb encoding"]
    ctx.assumptions += ["valid move: every per-tick |rate| and |accel| <= 2^31-1, T >= 1 - the full bracket is demanded there",
                        "moves whose rate leaves the limit (by up to 16x) are judged by the statement's last sentence only: an answer <= 2^31-1 "
                        "must mean the true peak is at most 2^31-1+|jerk|; raising or answering above the limit is accepted there"]
    return ctx.finish(
        rule="G: every tick state of the T3 machine stepped by TLC at modulus 2^31 carries the true peak, first and last |rate|; max_rate_t3 is judged by the "
             "bracket; V: random in-domain (T,rate,accel,jerk), half of them with the turning point aimed at the ends of the sampled window, judged by TLC "
             "(PeakL); distinct = distinct (T,rate,accel,jerk)",
        explanation="TLC checks on the complete small universe (modulus 16) that the impl-shaped max_rate_t3 satisfies the bracket and that the closed-form peak "
                    "PeakL equals the stepped peak; the real function is judged by the bracket only (differences from the transcription are DRIFT).")


def replay(rec):
    ec, _em, _mp = S.mods()
    c = rec["case"]
    T, r, a, j = c["T"], c["rate"], c["accel"], c["jerk"]
    if c.get("prelude_T"):
        S.call(ec.max_rate_t3, c["prelude_T"], r, a, j)          # the violation was observed after a longer move of the same command had been asked about
    ev = S.ev_val("max", r, a, j, T, S.call(ec.max_rate_t3, T, r, a, j), 15)
    ctx = vlib.Ctx("C17", "quick", 0, LEVEL, fresh=False)
    v = S.judge(ctx, "replay", [ev])[0]
    return v in ("ok", "skip"), {"verdict": v, "returned": ev["raw"]}
