"""C18 - travel-limit helpers. Spec: LimitsOps / Limits / LimitsTrace."""
import json
import os
import random

import vlib

LEVEL = "model_checking"
SHARED = [[0, 0], [0, 0]]

# exact-in-binary monotone affine maps  v -> a*v + b  (a > 0); tolerance scales by a
MAPS = [(1, 0, "int"), (1.0, 0.0, "float"), (0.5, -7.0, "x0.5-7"), (2.0 ** -10, 1.0, "x2^-10+1"), (1e6, 0.0, "x1e6"),
        # lattice steps that are tiny RELATIVE to the magnitude (a 'close enough' comparison must not swallow an outlier)
        (1.0, 2.0 ** 40, "+2^40"), (2.0 ** -32, 1.0, "x2^-32+1")]


def _pu():
    from plotink import plot_utils
    return plot_utils


def is_flag(got, want):
    """a flag is judged by its truth value (0/1, numpy.bool_ and bool are all flags); anything that is not 0 or 1 is not a flag"""
    try:
        return bool(got in (0, 1)) and bool(got) == want
    except Exception:  # pylint: disable=broad-except
        return False


def observe1(pu, v, lo, hi, t):
    chk = pu.checkLimits(v, lo, hi)
    tol = pu.checkLimitsTol(v, lo, hi, t)
    con = pu.constrainLimits(v, lo, hi)
    return {"chkV": chk[0], "chkF": chk[1], "tolV": tol[0], "tolF": tol[1], "con": con}


def judge_vector(pu, st, a, b):
    """G: compare the real helpers with the Abstract values TLC computed for this vector."""
    f = lambda x: a * x + b  # noqa: E731
    bad = []
    if st["kind"] == "1d":
        v, lo, hi, t = st["in"]
        o = observe1(pu, f(v), f(lo), f(hi), a * t)
        exp = st["out"]
        want = {"chkV": f(exp["expV"]), "chkF": exp["expF"], "tolV": f(exp["expV"]), "tolF": exp["expFT"],
                "con": f(exp["expV"])}
        for k, w in want.items():
            if not (is_flag(o[k], w) if isinstance(w, bool) else (o[k] == w and not isinstance(o[k], bool))):
                bad.append(("limits." + k, w, o[k]))
        drift = []
        impl = {"chkV": f(exp["chk"][0]), "chkF": exp["chk"][1], "tolV": f(exp["tol"][0]), "tolF": exp["tol"][1],
                "con": f(exp["con"])}
        for k, w in impl.items():
            if o[k] != w:
                drift.append(k)
        return bad, drift
    x, y, xlo, ylo, xhi, yhi, t = st["in"]
    got = pu.point_in_bounds([f(x), f(y)], [[f(xlo), f(ylo)], [f(xhi), f(yhi)]], a * t)
    if not is_flag(got, st["out"]["expIn"]):
        bad.append(("point_in_bounds", st["out"]["expIn"], got))
    if t == 0 and a >= 2.0 ** -10 and abs(b) < 2.0 ** 20:
        # the default tolerance (1e-9) is far below this lattice's step and above its rounding: the answer without a tolerance is the t = 0 answer
        g0 = pu.point_in_bounds([f(x), f(y)], [[f(xlo), f(ylo)], [f(xhi), f(yhi)]])
        if not is_flag(g0, st["out"]["expIn"]):
            bad.append(("point_in_bounds_default_tolerance", st["out"]["expIn"], g0))
    return bad, []


def record_events(pu, rng, n):
    """V: random integer-valued inputs at large magnitude (ints and ints-as-floats)."""
    evs = []
    B = 2 ** 29
    for j in range(n):
        scale = rng.choice([4, 50, 1000, 2 ** 20, B])
        r = lambda: rng.randint(-scale, scale)  # noqa: E731
        asf = rng.random() < 0.5
        c = (lambda z: float(z)) if asf else (lambda z: z)
        if rng.random() < 0.6:
            lo, hi = sorted((r(), r()))
            if rng.random() < 0.15:
                hi = lo
            t = rng.choice([0, 0, 1, rng.randint(0, max(1, scale // 4))])
            v = rng.choice([r(), lo, hi, lo - t, hi + t, lo - t - 1, hi + t + 1, lo - 1, hi + 1, lo + 1, hi - 1])
            o = observe1(pu, c(v), c(lo), c(hi), c(t))
            e = {"k": "1d", "v": v, "lo": lo, "hi": hi, "t": t}
            for k, val in o.items():
                e[k] = bool(val) if (k.endswith("F") and is_flag(val, bool(val))) else val if isinstance(val, bool) else _lat(val)
            for k in ("chkF", "tolF"):
                if not isinstance(e[k], bool):          # not a flag at all: keep TLC's types intact and let the value comparison fail
                    e[k], e["chkV"] = False, -(2 ** 30) - 7
            for k in ("chkV", "tolV", "con"):
                if isinstance(e[k], bool):
                    e[k] = -(2 ** 30) - 7
        else:
            xlo, xhi = sorted((r(), r()))
            ylo, yhi = sorted((r(), r()))
            t = rng.choice([0, 1, rng.randint(0, max(1, scale // 4))])
            x = rng.choice([r(), xlo, xhi, xlo - t, xhi + t, xlo - t - 1, xhi + t + 1])
            y = rng.choice([r(), ylo, yhi, ylo - t, yhi + t, ylo - t - 1, yhi + t + 1, (ylo + yhi) // 2])
            # one bounds list object lives across the whole run and is edited in place (a caller may do that between calls)
            SHARED[0][0], SHARED[0][1], SHARED[1][0], SHARED[1][1] = c(xlo), c(ylo), c(xhi), c(yhi)
            got = pu.point_in_bounds([c(x), c(y)], SHARED, c(t))
            e = {"k": "2d", "x": x, "y": y, "xlo": xlo, "ylo": ylo, "xhi": xhi, "yhi": yhi, "t": t, "pib": bool(got)}
        e["asfloat"] = asf
        evs.append(e)
    return evs


def _lat(v):
    """observed numeric result back on the integer lattice (non-integers can never be right:
    a clamp returns one of its arguments) - encoded so TLC sees a mismatch, never a crash."""
    if isinstance(v, bool):
        return -(2 ** 30) - 7
    if isinstance(v, int):
        return v
    if isinstance(v, float) and v == int(v) and abs(v) < 2 ** 30:
        return int(v)
    return -(2 ** 30) - 7


def validate(ctx, name, evs):
    wd = os.path.join(ctx.workdir, name)
    os.makedirs(wd, exist_ok=True)
    tf = os.path.join(wd, "trace.ndjson")
    with open(tf, "w") as fh:
        for e in evs:
            fh.write(json.dumps(e) + "\n")
    dump = os.path.join(wd, "states")
    vlib.tlc(wd, "LimitsTrace", "LimitsTrace.cfg", workers=1, dump=dump, env={"TRACE_FILE": tf})
    verdicts = {}
    for st in vlib.read_dump(dump + ".dump"):
        verdicts[st["i"]] = st["verdict"]
    os.remove(dump + ".dump")
    if len(verdicts) != len(evs) + 1:
        raise vlib.MachineryError("LimitsTrace: %d verdicts for %d events" % (len(verdicts) - 1, len(evs)))
    return [verdicts[i + 1] for i in range(len(evs))]


def run(ctx):
    pu = _pu()
    tier = ctx.tier
    rng = random.Random(ctx.seed * 7919 + 18)
    # E1 + dump: impl-shaped refines abstract over the whole lattice; every done-state is a vector
    dump = os.path.join(ctx.workdir, "e1", "states")
    ctx.run_tlc("e1", "Limits", "Limits_%s.cfg" % tier, dump=dump, coverage=True)
    # E2: the same refinement for ALL integers (no lattice bound), symbolically
    proved = vlib.apalache(ctx, "limits", "LimitsInd", [("impl-shaped helpers refine clamp/flag statement, unbounded", ["--init=Init", "--inv=Refines", "--length=0"])])
    ctx.assumptions.append("apalache unbounded refinement discharged: %s" % proved)
    n = 0
    for st in vlib.read_dump(dump + ".dump", prefilter='pc = "done"'):
        n += 1
        for a, b, mname in MAPS:
            bad, drift = judge_vector(pu, st, a, b)
            ctx.count((st["kind"], tuple(st["in"]), mname))
            for clause, want, got in bad:
                ctx.violation(clause, {"mode": "G", "kind": st["kind"], "in": st["in"], "map": [a, b]}, want, got)
            if drift and not bad:
                ctx.note_drift("real helper differs from impl-shaped operator in " + ",".join(drift), st["in"])
        if n % 9973 == 1:
            ctx.sample({"mode": "G", "kind": st["kind"], "in": st["in"], "abstract": {k: v for k, v in st["out"].items() if k.startswith("exp")}})
    os.remove(dump + ".dump")
    ctx.traces += n
    ctx.stage("G", kind="spec->code", vectors=n, maps=[m[2] for m in MAPS])
    ctx.exhaustive = True
    # V: recorded events judged by TLC
    nev = 4000 if tier == "quick" else 120000
    evs = record_events(pu, rng, nev)
    verdicts = validate(ctx, "v", evs)
    for e, v in zip(evs, verdicts):
        if v == "skip":
            ctx.skipped += 1
            continue
        ctx.count(("V", json.dumps(e, sort_keys=True)))
        if v != "ok":
            ctx.violation(v, {"mode": "V", "event": e}, "ok", v)
    ctx.traces += len(evs)
    ctx.sample({"mode": "V", "event": evs[0], "verdict": verdicts[0]})
    ctx.stage("V", kind="code->spec", events=len(evs), rejected=sum(1 for v in verdicts if v not in ("ok", "skip")))
    import plot_extra
    plot_extra.run_stage(ctx)            # growth beyond the list: the other small helpers of plot_utils (observations only)
    ctx.trusted += ["TLC 1.8", "harness/c18.py affine maps (exact in binary floating point)", "vlib TLA value parser"]
    ctx.assumptions += ["inputs are integer lattice points mapped through exact affine maps; float rounding off the lattice is not modelled",
                        "lower <= upper and tolerance >= 0 (the statement's domain)"]
    return ctx.finish(
        rule="G: every (value,lower,upper,tolerance) / 2-D vector of the TLC-enumerated lattice x 7 exact affine maps; "
             "V: seeded random integer-valued inputs up to 2^29 judged by LimitsTrace; distinct = distinct (vector,map) or event",
        explanation="TLC checks impl-shaped operators refine the abstract clamp/flag statement on the whole lattice, "
                    "dumps every vector, the harness replays each into plot_utils; recorded random events are judged by TLC.")


def replay(rec):
    pu = _pu()
    c = rec["case"]
    if c["mode"] == "G":
        # re-evaluate against the abstract definition (recomputed here from the spec's Clamp/Flag)
        a, b = c["map"]
        f = lambda x: a * x + b  # noqa: E731
        if c["kind"] == "1d":
            v, lo, hi, t = c["in"]
            o = observe1(pu, f(v), f(lo), f(hi), a * t)
            cl = lo if v < lo else hi if v > hi else v
            want = {"chkV": f(cl), "chkF": not lo <= v <= hi, "tolV": f(cl), "tolF": v < lo - t or v > hi + t, "con": f(cl)}
            bad = {k: (want[k], o[k]) for k in want
                   if not (is_flag(o[k], want[k]) if isinstance(want[k], bool) else (o[k] == want[k] and not isinstance(o[k], bool)))}
            return (not bad), {"mismatch": bad}
        x, y, xlo, ylo, xhi, yhi, t = c["in"]
        got = pu.point_in_bounds([f(x), f(y)], [[f(xlo), f(ylo)], [f(xhi), f(yhi)]], a * t)
        want = not (x < xlo - t or x > xhi + t) and not (y < ylo - t or y > yhi + t)
        ok = is_flag(got, want)
        got0 = None
        if t == 0 and a >= 2.0 ** -10 and abs(b) < 2.0 ** 20:            # the default-tolerance call of the run
            got0 = pu.point_in_bounds([f(x), f(y)], [[f(xlo), f(ylo)], [f(xhi), f(yhi)]])
            ok = ok and is_flag(got0, want)
        return ok, {"want": want, "got": got, "got_default_tolerance": got0}
    e = c["event"]
    cf = float if e.get("asfloat") else (lambda z: z)
    if e["k"] == "1d":
        o = observe1(pu, cf(e["v"]), cf(e["lo"]), cf(e["hi"]), cf(e["t"]))
        e2 = dict(e)
        for k, val in o.items():
            e2[k] = bool(val) if (k.endswith("F") and is_flag(val, bool(val))) else val if isinstance(val, bool) else _lat(val)
    else:
        got = pu.point_in_bounds([cf(e["x"]), cf(e["y"])], [[cf(e["xlo"]), cf(e["ylo"])], [cf(e["xhi"]), cf(e["yhi"])]], cf(e["t"]))
        e2 = dict(e, pib=bool(got))
    ctx = vlib.Ctx("C18", "quick", 0, LEVEL, fresh=False)
    v = validate(ctx, "replay", [e2])[0]
    return v in ("ok", "skip"), {"verdict": v, "event": e2}
