"""C19 - port discovery. Specs: Discovery (enumerator over descriptor templates), DiscoveryOps (char-level abstract clauses + the two
matchers as coded), DiscoveryTrace (judge)."""
import os
import random

import vlib

LEVEL = "model_checking"

# descriptor catalogue: template -> (device, description, hardware id) with {n} = position-unique number, {name} = board name
CATALOGUE = {
    "mac_named": ("/dev/cu.usbmodem14{n}1", "EiBotBoard,{name}", "USB VID:PID=04D8:FD92 SER={name} LOCATION=20-{n}"),
    "unnamed": ("/dev/ttyACM{n}", "EiBotBoard", "USB VID:PID=04D8:FD92 LOCATION=1-1.{n}"),
    "win_ser": ("COM{n}", "USB Serial Device (COM{n})", "USB VID:PID=04D8:FD92 SER={name} LOCATION=1-2.{n}"),
    "win_snr": ("COM1{n}", "USB Serial Device (COM1{n})", "USB VID:PID=04D8:FD92 SNR={name}"),
    "vidpid_only": ("/dev/ttyS{n}", "ttyS{n}", "USB VID:PID=04D8:FD92"),
    "foreign": ("/dev/ttyUSB{n}", "FT232R USB UART", "USB VID:PID=0403:6001 SER=A50285B{n} LOCATION=1-1"),
    "foreign_mentions": ("/dev/cu.wch{n}", "Arduino {name} clone", "USB VID:PID=2341:0043 SER={name}X LOCATION=1-4"),
    "bluetooth": ("/dev/cu.Bluetooth-Incoming-Port{n}", "n/a", "n/a"),
    # near misses: the product name or the vendor/product id is there, but not at the START of the string, or the product id differs
    "name_not_initial": ("/dev/ttyACM9{n}", "Acme EiBotBoard clone {name}", "USB VID:PID=1A86:7523 LOCATION=3-{n}"),
    "other_product": ("/dev/ttyACM8{n}", "USB Serial", "USB VID:PID=04D8:000A SER={name} LOCATION=1-3.{n}"),
    "id_not_initial": ("COM2{n}", "Standard Serial over Bluetooth link (COM2{n})", "BTHENUM USB VID:PID=04D8:FD92 SER={name}"),
    # each signature belongs to ITS field: the product name at the start of the hardware id, or the id at the start of the description, is not a board
    "name_in_hwid": ("/dev/ttyS4{n}", "Serial adapter", "EiBotBoard lookalike {name}"),
    # a board recognised by its description ALONE (the hardware id says nothing): the description test is not redundant with the id test
    "desc_only": ("/dev/ttyACM7{n}", "EiBotBoard,{name}", "n/a"),
    # a foreign device whose description BEGINS with a board's name (it is not called that: it has no name, tag or port name equal to it)
    "foreign_name_initial": ("/dev/ttyUSB5{n}", "{name} Bridge UART", "USB VID:PID=0403:6015 LOCATION=1-5.{n}"),
    # the serial-number tag is the LAST token of the hardware id (nothing follows it)
    "win_ser_end": ("COM4{n}", "USB Serial Device (COM4{n})", "USB VID:PID=04D8:FD92 SER={name}"),
    "id_in_desc": ("COM3{n}", "USB VID:PID=04D8:FD92 bridge", "PCI VEN_8086 SER={name} LOCATION=0-{n}"),
}
DESC_IS_EBB = {"mac_named", "unnamed", "desc_only"}
ID_IS_EBB = {"mac_named", "unnamed", "win_ser", "win_snr", "vidpid_only", "win_ser_end"}
FOREIGN_NEEDLES = ["zzz", "COM", "usb", "EiBot", "Lab", "ser", "east", "/dev/", "X2"]


def _mods():
    from plotink import ebb_serial, ebb3_serial
    return ebb_serial, ebb3_serial


def codes(s):
    return [ord(c) for c in s]


def render(abstract_ports):
    out = []
    for k, p in enumerate(abstract_ports):
        dev, desc, hwid = CATALOGUE[p["t"]]
        out.append(tuple(x.format(n=k + 3, name=p["nm"]) for x in (dev, desc, hwid)))
    return out


def as_port_objects(ports):
    """what pyserial 3 really enumerates: ListPortInfo objects (indexable like the triples of pyserial 2.7, and carrying attributes)"""
    from serial.tools.list_ports_common import ListPortInfo
    objs = []
    for dev, desc, hwid in ports:
        o = ListPortInfo(dev, True)
        o.description, o.hwid = desc, hwid
        objs.append(o)
    return objs


def idx_of(ports, dev):
    if dev is None:
        return 0
    for k, p in enumerate(ports):
        if p[0] == dev:
            return k + 1
    return -2


def cases(s):
    return list(dict.fromkeys([s, s.lower(), s.upper()]))


class Session:
    """both layers with `comports` rebound to a scripted enumeration; ONE EBB3 object lives across all enumerations"""

    def __init__(self):
        self.es, self.e3 = _mods()
        self.current = []
        fake = lambda *a, **k: iter(list(self.current))  # noqa: E731
        self.es.comports = fake
        self.e3.comports = fake
        import serial.tools.list_ports as lp          # also the origin, in case a layer stops importing the name
        lp.comports = fake
        self.obj = self.e3.EBB3()

    def event(self, ports, abstract=None, extra_needles=(), objects=False):
        prev = [list(p) for p in self.current]
        self.current = as_port_objects(ports) if objects else list(ports)
        self.nev = getattr(self, "nev", 0) + 1
        es, e3 = self.es, self.e3
        ev = {"ports": [[codes(x) for x in p] for p in ports], "abstract": abstract, "strings": [list(p) for p in ports], "status": "ok", "objects": objects,
              "previous": prev}
        try:
            ev["first_legacy"] = idx_of(ports, es.findPort())
            self.obj.find_first()
            ev["first_ebb3"] = idx_of(ports, self.obj.port_name)
            for key, fn in (("list_legacy", es.listEBBports), ("list_ebb3", e3.list_ebb_ports)):
                lst = fn()
                ev[key] = [] if lst is None else [idx_of(ports, p[0]) if tuple(p) in ports else -2 for p in lst]
                if lst is not None and len(lst) == 0:
                    ev[key] = [-3]                         # the statement says None when there are none
            nl, n3 = es.list_named_ebbs(), e3.list_named_ebbs()
            listing = [k + 1 for k, p in enumerate(ports) if p[1].startswith("EiBotBoard") or p[2].startswith("USB VID:PID=04D8:FD92")]
            lookups = []

            def add(needle, kind, k, cl, ce):
                for nd in cases(needle):
                    lookups.append({"needle": codes(nd), "kind": kind, "k": k, "cl": cl, "ce": ce, "text": nd,
                                    "leg": idx_of(ports, es.find_named_ebb(nd)), "e3": idx_of(ports, e3.find_named(nd))})
            for j, k in enumerate(listing):
                name_l = nl[j] if nl and j < len(nl) else None
                name_3 = n3[j] if n3 and j < len(n3) else None
                if isinstance(name_l, str) and name_l == name_3:
                    add(name_l, "name", k, True, True)
                else:
                    if isinstance(name_l, str):
                        add(name_l, "name", k, True, False)
                    if isinstance(name_3, str):
                        add(name_3, "name", k, False, True)
                hw = ports[k - 1][2]
                if " SER=" in hw:
                    add(hw.split(" SER=")[1].split(" LOCATION")[0], "tag", k, True, True)
                if " SNR=" in hw:
                    add(hw.split(" SNR=")[1], "snrtag", k, True, False)
                add(ports[k - 1][0], "dev", k, True, True)
            for nd in list(extra_needles) + FOREIGN_NEEDLES[: 4 + len(ports)]:
                lookups.append({"needle": codes(nd), "kind": "foreign", "k": 0, "cl": False, "ce": False, "text": nd,
                                "leg": idx_of(ports, es.find_named_ebb(nd)), "e3": idx_of(ports, e3.find_named(nd))})
            ev["lookups"] = lookups
            ev["named"] = [nl, n3]
            ev["names"] = [[codes(x) if isinstance(x, str) else [0] for x in (lst or [])] for lst in (nl, n3)]
            if es.find_named_ebb(None) is not None or e3.find_named(None) is not None:
                ev["status"] = "lookup of None returned a port"
        except Exception as ex:  # pylint: disable=broad-except
            ev["status"] = "raised " + type(ex).__name__ + ": " + str(ex)[:60]
            for key in ("first_legacy", "first_ebb3"):
                ev.setdefault(key, -2)
            for key in ("list_legacy", "list_ebb3", "lookups"):
                ev.setdefault(key, [])
            ev.setdefault("names", [[], []])
        return ev


def judge(ctx, name, evs):
    slim = [{k: e[k] for k in ("ports", "first_legacy", "first_ebb3", "list_legacy", "list_ebb3", "names")} for e in evs]
    for s, e in zip(slim, evs):
        s["lookups"] = [{k: l[k] for k in ("needle", "kind", "k", "cl", "ce", "leg", "e3")} for l in e["lookups"]]
    vs, stats = vlib.judge_events(os.path.join(ctx.workdir, name), "DiscoveryTrace", "DiscoveryTrace.cfg", slim, chunk=300)
    ctx.states += stats["distinct"]
    ctx.transitions += stats["generated"]
    return vs


def report(ctx, mode, evs, vs):
    rej = drift = 0
    for e, (v, d) in zip(evs, vs):
        drift += d
        if e["status"] != "ok":
            rej += 1
            ctx.violation("discovery.raises_or_bad_result", {"mode": mode, "ports": e["strings"], "objects": e.get("objects", False)}, "results", e["status"])
        elif v != "ok":
            rej += 1
            clause, _, at = v.partition("@")
            l = e["lookups"][int(at) - 1] if at else None
            ctx.violation(clause, {"mode": mode, "ports": e["strings"], "previous_enumeration": e["previous"], "objects": e.get("objects", False), "needle": l["text"] if l else None,
                           "own_board": l["k"] if l else None},
                          "abstract clause", {"first": [e["first_legacy"], e["first_ebb3"]], "lists": [e["list_legacy"], e["list_ebb3"]],
                                              "lookup": {"legacy": l["leg"], "ebb3": l["e3"]} if l else None, "named": e.get("named")})
        if d and len(ctx.drift) < 5:
            ctx.note_drift("a real matcher differs from the transcribed one on %d lookups (statement still judged separately)" % d, e["strings"])
    return rej, drift


def run(ctx):
    tier = ctx.tier
    sess = Session()
    # catalogue self-test: the template facts the enumerator's invariants use are those of the rendered strings
    for t, (dev, desc, hwid) in CATALOGUE.items():
        if desc.startswith("EiBotBoard") != (t in DESC_IS_EBB) or hwid.startswith("USB VID:PID=04D8:FD92") != (t in ID_IS_EBB):
            raise vlib.MachineryError("catalogue and Discovery.tla disagree on template " + t)
    dump = os.path.join(ctx.workdir, "e1", "states")
    ctx.run_tlc("e1", "Discovery", "Discovery_%s.cfg" % tier, dump=dump)
    evs = []
    n = 0
    for st in vlib.read_dump(dump + ".dump", only={"ports", "phase"}, prefilter='phase = "done"'):
        n += 1
        if tier == "thorough" and len(st["ports"]) == 3 and n % 3:
            continue
        ports = render(st["ports"])
        ctx.count(tuple(ports))
        evs.append(sess.event(ports, abstract=st["ports"], objects=True))
        if n % 211 == 1:
            ctx.sample({"mode": "G", "abstract": st["ports"], "rendered": ports, "lookups": len(evs[-1]["lookups"]), "named": evs[-1].get("named")})
    os.remove(dump + ".dump")
    vs = judge(ctx, "g", evs)
    rej, drift = report(ctx, "G", evs, vs)
    ctx.traces += len(evs)
    ctx.stage("G", kind="spec->code->spec", port_lists=len(evs), lookups=sum(len(e["lookups"]) for e in evs), rejected=rej, drift_lookups=drift)
    ctx.exhaustive = tier == "quick"
    # V: random longer lists with all five names
    rng = random.Random(ctx.seed * 67867967 + 19)
    nv = 250 if tier == "quick" else 4000
    names = ["Lab", "LabX2", "East Wing", "axi_7", "MiXeD", "COM4", "abc", "Z", "Q7", "A+B", "x(1)", "a.c", "Zo\u00eb"]       # incl. regex metacharacters, non-ASCII
    vevs = []
    for _ in range(nv):
        L = rng.randint(0, 5)
        ab = [{"t": rng.choice(list(CATALOGUE)), "nm": rng.choice(names)} for _k in range(L)]
        ports = render(ab)
        ctx.count(("V",) + tuple(ports))
        vevs.append(sess.event(ports, abstract=ab, extra_needles=[rng.choice(names), rng.choice(names)[:3], "a.c".replace(".", "b")], objects=True))
    vvs = judge(ctx, "v", vevs)
    rej, drift = report(ctx, "V", vevs, vvs)
    ctx.traces += nv
    ctx.stage("V", kind="code->spec", port_lists=nv, lookups=sum(len(e["lookups"]) for e in vevs), rejected=rej, drift_lookups=drift)
    import legacy_session
    legacy_session.run_stage(ctx)        # growth beyond the list: discovery + handshake + open/close life cycle of a legacy session (observations only)
    sess = Session()                     # the stage rebinds comports; restore this check's own stubs
    ctx.trusted += ["TLC 1.8", "harness descriptor catalogue (self-tested against Discovery.tla) and rebinding of comports", "vlib parser"]
    ctx.assumptions += ["ports are (device, description, hardware id) triples with unique device strings; descriptor shapes from the catalogue "
                        "(macOS/Linux named + unnamed, Windows SER=, pyserial-2.7 SNR=, VID:PID only, foreign, foreign mentioning a board name, Bluetooth)",
                        "'no earlier port also matches' is read as: no earlier port's three strings contain the needle, ignoring case (weakest reading)",
                        "one EBB3 object is reused across all enumerations (stale state between calls is in scope)"]
    return ctx.finish(
        rule="G: every list of <=2 ports (thorough: <=3, a third of the triples) over 14 descriptor templates (5 near misses, one board recognisable by its description alone) x 4 names, enumerated as pyserial ListPortInfo objects (indexable like the triples of pyserial 2.7, with .device/.description/.hwid); for every listed board the lookups by the "
             "name each layer reports, the SER=/SNR= tag and the device name, each in three letter cases, plus foreign needles; V: random lists of 0..5 ports "
             "over 13 names (underscore, mixed case, prefix pairs, a name that looks like a COM port, regex metacharacters, non-ASCII); distinct = distinct port lists",
        explanation="TLC enumerates the port lists at template level (checking the catalogue-level facts: first board is listed, description match wins), the harness "
                    "renders them to OS-style strings and runs both layers with comports rebound; TLC judges every answer at character level: FirstBoard, Listing, "
                    "lookup-in-list, LookupFindsOwn (weakest reading) and LayersAgree without SNR=; the two matchers are transcribed for DRIFT reporting.")


def replay(rec):
    c = rec["case"]
    sess = Session()
    ports = [tuple(p) for p in c["ports"]]
    if c.get("previous_enumeration"):
        sess.event([tuple(p) for p in c["previous_enumeration"]])      # the same EBB3 object saw this enumeration first
    ev = sess.event(ports, extra_needles=[c["needle"]] if c.get("needle") else [], objects=True)
    if ev["status"] != "ok":
        return False, {"status": ev["status"]}
    ctx = vlib.Ctx("C19", "quick", 0, LEVEL, fresh=False)
    v = judge(ctx, "replay", [ev])[0]
    return v[0] == "ok", {"verdict": v[0], "first": [ev["first_legacy"], ev["first_ebb3"]], "lists": [ev["list_legacy"], ev["list_ebb3"]]}
