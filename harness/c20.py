"""C20 - text helpers. Specs: TextOps (Esc/Unesc/JudgeEscape, five-pass impl; JudgeDuration, FormatImpl), TextFmt, TextTrace."""
import os
import random
import re

import vlib

LEVEL = "model_checking"
PLAIN = set("&<>\"'amp;#ltgquosx0123456789cCeE bdfABDF")         # = TextOps!PlainTable (checked at start-up)


def _tu():
    from plotink import text_utils
    from lxml import etree
    return text_utils, etree


def toks(text):
    """characters as spec symbols: the escaping alphabet verbatim, anything else as an opaque token"""
    return [c if c in PLAIN else "u%04X" % ord(c) for c in text]


def parse_back(etree, out):
    """what a standard XML parser reads back from element content, a double- and a single-quoted attribute"""
    try:
        doc = ('<r a="%s" b=\'%s\'>%s</r>' % (out, out, out)).encode("utf-8")
        root = etree.fromstring(doc)
        return False, root.text or "", root.get("a"), root.get("b")
    except Exception:  # pylint: disable=broad-except
        return True, "", "", ""


def esc_event(tu, etree, s):
    try:
        o = tu.xml_escape(s)
    except Exception as ex:  # pylint: disable=broad-except
        return {"k": "esc", "s": toks(s), "o": ["<"], "perr": True, "pe": [], "pd": [], "ps": [], "text": s, "raw": "raised " + type(ex).__name__}
    if not isinstance(o, str):
        return {"k": "esc", "s": toks(s), "o": ["<"], "perr": True, "pe": [], "pd": [], "ps": [], "text": s, "raw": repr(o)}
    perr, pe, pd, ps = parse_back(etree, o)
    return {"k": "esc", "s": toks(s), "o": toks(o), "perr": perr, "pe": toks(pe), "pd": toks(pd), "ps": toks(ps), "text": s, "raw": o}


def esc_class(s):
    """input classes of the open known findings, decided from the input alone"""
    if "\r" in s:
        return "xml_escape:contains_CR"
    if "\t" in s or "\n" in s:
        return "xml_escape:TAB_or_LF_in_attribute"
    return None


def known_class(e, verdict):
    """the open findings cover exactly: output decodes to the original, and the parser read back the original after XML's own
    line-end (CR, CRLF -> LF) and attribute-value (TAB, LF -> space) normalisation. Anything else is a fresh violation."""
    s = e["text"]
    cls = esc_class(s)
    if cls is None or not verdict.startswith("escape.parsed_"):
        return None
    ne = s.replace("\r\n", "\n").replace("\r", "\n")
    na = ne.replace("\n", " ").replace("\t", " ")
    if e["pe"] == toks(ne) and e["pd"] == toks(na) and e["ps"] == toks(na):
        return cls
    return None


LEX = [(re.compile(r"^(\d+):(\d+):(\d+)(?!\d)"), "hms"), (re.compile(r"^(\d+):(\d+)(?!\d|:)"), "ms"),
       (re.compile(r"^(\d+)\.(\d{3})(?!\d)"), "msec"), (re.compile(r"^(\d+)(?![\d.:])"), "s")]


def lex_duration(text):
    if not isinstance(text, str):
        return {"form": "bad", "a": 0, "b": 0, "c": 0, "two": False}
    for rx, form in LEX:
        m = rx.match(text.strip())
        if m:
            g = m.groups()
            vals = [int(x) for x in g] + [0, 0]
            two = all(len(x) == 2 for x in g[1:]) if form in ("hms", "ms") else (len(g[0]) >= 2 if form == "s" else True)
            if max(vals) >= 500000:                  # no duration up to 10^7 s prints such a field; keeps the judge's products inside 32 bits
                break
            return {"form": form, "a": vals[0], "b": vals[1], "c": vals[2], "two": two}
    return {"form": "bad", "a": 0, "b": 0, "c": 0, "two": False}


def dur_event(tu, sec, ms):
    total_ms = sec * 1000 + ms
    try:
        t_ms = tu.format_hms(total_ms, True)
        t_s = tu.format_hms(total_ms / 1000.0)
        t_s2 = tu.format_hms(total_ms / 1000.0, False)
        if ms == 0 and tu.format_hms(sec) != t_s:                 # whole seconds given as an int
            t_s2 = "int seconds differ: " + repr(tu.format_hms(sec))
    except Exception as ex:  # pylint: disable=broad-except
        return {"k": "dur", "sec": sec, "ms": ms, "p": lex_duration(None), "same": False, "raw": "raised " + type(ex).__name__}
    return {"k": "dur", "sec": sec, "ms": ms, "p": lex_duration(t_s), "same": (t_ms == t_s == t_s2), "raw": [t_s, t_ms]}


def dur_event_us(tu, sec, us):
    """a duration that is not a whole number of milliseconds (us: microseconds 0..999999, kept 50 us away from every rounding tie)"""
    total = sec + us / 1e6
    try:
        t_s = tu.format_hms(total)
        t_ms = tu.format_hms(total * 1000.0, True)
    except Exception as ex:  # pylint: disable=broad-except
        return {"k": "dur", "sec": sec, "ms": us // 1000, "us": us, "p": lex_duration(None), "same": False, "raw": "raised " + type(ex).__name__}
    return {"k": "dur", "sec": sec, "ms": us // 1000, "us": us, "p": lex_duration(t_s), "same": t_ms == t_s, "raw": [t_s, t_ms]}


def alt_escapers():
    """other CORRECT escapers (numeric references, also for characters the parser would otherwise normalise): the specification must accept them.
    A soundness self-test of TextOps!Unesc / JudgeEscape - a rejection here is a machinery error, never a violation."""
    named = {"&": "&amp;", "<": "&lt;", ">": "&gt;", '"': "&quot;", "'": "&apos;"}
    def dec(s):
        return "".join("&#%d;" % ord(c) if c in "&<>\"'\r\n\t" else c for c in s)
    def hexa(s):
        return "".join("&#x%X;" % ord(c) if (c in "&<>\"'\r\n\t" or ord(c) > 126) else c for c in s)
    def padded(s):
        return "".join("&#0%d;" % ord(c) if c in "&<>\"'" else "&#xd;" if c == "\r" else "&#x9;" if c == "\t" else "&#xA;" if c == "\n" else c for c in s)
    def mixed(s):
        return "".join(named.get(c, "&#13;" if c == "\r" else "&#9;" if c == "\t" else "&#10;" if c == "\n" else c) for c in s)
    return [dec, hexa, padded, mixed]


def check_plain_table():
    src = open(os.path.join(vlib.SPEC, "TextOps.tla")).read()
    tab = src[src.index("PlainTable == {"):src.index("HexVal(c) ==")]
    pairs = {(m.group(1).replace('\\"', '"'), int(m.group(2))) for m in re.finditer(r'<<"((?:\\"|[^"]))", (\d+)>>', tab)}
    if pairs != {(c, ord(c)) for c in PLAIN}:
        raise vlib.MachineryError("harness PLAIN and TextOps!PlainTable disagree: %r" % sorted(pairs ^ {(c, ord(c)) for c in PLAIN}))


def judge(ctx, name, evs):
    slim = [{k: v for k, v in e.items() if k not in ("text", "raw")} for e in evs]
    vs, stats = vlib.judge_events(os.path.join(ctx.workdir, name), "TextTrace", "TextTrace.cfg", slim, chunk=4000)
    ctx.states += stats["distinct"]
    ctx.transitions += stats["generated"]
    if any(v in ("badevent", "init") for v in vs):
        raise vlib.MachineryError("TextTrace: bad event")
    return vs


def run(ctx):
    tu, etree = _tu()
    tier = ctx.tier
    check_plain_table()
    dump = os.path.join(ctx.workdir, "e1", "states")
    ctx.run_tlc("e1", "TextFmtMC", "TextFmt_%s.cfg" % tier, dump=dump)
    evs = []
    n = 0
    for st in vlib.read_dump(dump + ".dump"):
        n += 1
        if st["kind"] == "text":
            s = "".join(st["s"])
            ctx.count(("esc", s))
            o = None
            try:
                o = tu.xml_escape(s)
            except Exception:  # pylint: disable=broad-except
                pass
            if o == "".join(st["esc"]):
                perr, pe, pd, ps = parse_back(etree, o)          # equals the transducer TLC proved; the real parser must still agree
                if perr or not (pe == pd == ps == s):
                    evs.append(esc_event(tu, etree, s))
            else:
                evs.append(esc_event(tu, etree, s))
            if n % 3001 == 1:
                ctx.sample({"mode": "G", "text": s, "transducer": "".join(st["esc"]), "xml_escape": o})
        else:
            sec, ms = st["dur"]
            ctx.count(("dur", sec, ms))
            evs.append(dur_event(tu, sec, ms))
    os.remove(dump + ".dump")
    ctx.stage("G", kind="spec->code", vectors=n, sent_to_tlc=len(evs))
    ctx.exhaustive = True
    ctx.traces += n
    # every duration 0 .. 20 000 ms (quick: step 7) and random durations up to 10^7 s
    rng = random.Random(ctx.seed * 86028121 + 20)
    for total in range(0, 20001, 7 if tier == "quick" else 1):
        evs.append(dur_event(tu, total // 1000, total % 1000))
    nd = 3000 if tier == "quick" else 100000
    for _ in range(nd):
        sec = rng.choice([rng.randint(0, 70), rng.randint(0, 4000), rng.randint(0, 10 ** 7), rng.choice([59, 3599, 35999, 359999]) + rng.randint(0, 1)])
        ms = rng.choice([0, 499, 500, 501, 999, rng.randint(0, 999)])
        evs.append(dur_event(tu, sec, ms))
    # durations that are not whole milliseconds (seconds as floats; the millisecond form gets the same float times 1000)
    for _ in range(nd // 3):
        sec = rng.choice([rng.randint(0, 12), 9, 9, 59, 3599, 35999, rng.randint(0, 10 ** 7)])
        us = rng.choice([rng.randint(0, 999) * 1000 + rng.choice([60, 440, 560, 940]), 999600, 999940, 499900, 500100, 400, 999440])
        evs.append(dur_event_us(tu, sec, us))
    # V: random strings of XML-legal characters, incl. pre-escaped text, mixed quotes, non-ASCII, whitespace controls
    ns = 3000 if tier == "quick" else 80000
    frag = ["&", "<", ">", '"', "'", "&amp;", "&lt;", "&gt;", "&quot;", "&apos;", "&#38;", "&#x3c;", "amp;", "lt", ";", "#", " ", "a", "Tom", "é", "中", "\U0001F600",
            "\t", "\n", "\r", "]]>", "<!--", "&&", "''", '""',
            # characters an escaper might be tempted to treat specially: no-break space, soft hyphen, NEL, line/paragraph separators, replacement char, a C1 control
            "\u00a0", "\u00ad", "\u0085", "\u2028", "\u2029", "\ufffd", "\u0091", "\u200b", "\ufeff",
            # text that is not in a Unicode normal form (an escaper that normalises changes it): decomposed letters, singletons, jamo, DEL
            "e\u0301", "\u212b", "\u2126", "\uf900", "\u1100\u1161", "a\u0323\u0307", "\u007f"]
    for _ in range(ns):
        s = "".join(rng.choice(frag) for _k in range(rng.randint(0, 8)))
        evs.append(esc_event(tu, etree, s))
    # soundness self-test: other correct escapers must be accepted by the specification
    alts = []
    for k in range(400 if tier == "quick" else 4000):
        s = "".join(rng.choice(frag) for _k in range(rng.randint(1, 8)))
        for fn in alt_escapers():
            o = fn(s)
            perr, pe, pd, ps = parse_back(etree, o)
            alts.append({"k": "esc", "s": toks(s), "o": toks(o), "perr": perr, "pe": toks(pe), "pd": toks(pd), "ps": toks(ps), "text": s, "raw": o})
    va = judge(ctx, "alt", alts)
    off = [(e["text"], e["raw"], v) for e, v in zip(alts, va) if v != "ok"]
    if off:
        raise vlib.MachineryError("TextOps rejects a correct escaper (specification too strict): %r" % (off[0],))
    ctx.stage("alt_escapers", kind="specification self-test", correct_alternative_outputs_accepted=len(alts))
    vs = judge(ctx, "v", evs)
    rej = 0
    for e, v in zip(evs, vs):
        if e["k"] == "esc":
            ctx.count(("esc", e["text"]))
        else:
            ctx.count(("dur", e["sec"], e.get("us", e["ms"] * 1000)))
        if v != "ok":
            rej += 1
            if e["k"] == "esc":
                ctx.violation(v, {"mode": "V", "k": "esc", "text": e["text"]}, "round trip", e["raw"], input_class=known_class(e, v))
            else:
                ctx.violation(v, dict({"mode": "V", "k": "dur", "sec": e["sec"], "ms": e["ms"]}, **({"us": e["us"]} if "us" in e else {})), "JudgeDuration", e["raw"])
    ctx.traces += len(evs)
    ctx.sample({"mode": "V", "text": evs[-1]["text"], "escaped": evs[-1]["raw"], "verdict": vs[-1]})
    d0 = next(e for e in evs if e["k"] == "dur" and e["sec"] > 3600)
    ctx.sample({"mode": "V", "duration": [d0["sec"], d0["ms"]], "printed": d0["raw"], "lexed": d0["p"]})
    ctx.stage("V", kind="code->spec", events=len(evs), rejected=rej)
    ctx.trusted += ["TLC 1.8", "lxml (the 'standard XML parser')", "harness tokenisation of characters and lexing of the printed duration", "vlib parser"]
    ctx.assumptions += ["suffix words of format_hms are not compared (the statement does not fix them); at exactly x.5 s either neighbour is accepted",
                        "strings: XML-legal characters; U+000D anywhere and U+0009/U+000A (attribute position) are open known findings"]
    return ctx.finish(
        rule="G: every string of length <=3|4 over 15 symbols and <=5|6 over the interacting core (& < ' a m p ; l t) through xml_escape and the real parser; "
             "every boundary duration (10 s, 60 s, 1 h, 10 h, 100 h, 10^7 s) x ms in {0,1,499,500,501,999}; V: every duration 0..20 s, random durations (also ones that are not whole milliseconds, judged to the microsecond), "
             "random strings of entity fragments, quotes, non-ASCII and whitespace controls; four other correct escapers are fed through the judge as a soundness self-test; distinct = distinct inputs",
        explanation="TLC checks that five sequential replace passes equal the single-pass transducer and that decoding the escaped text gives back the original "
                    "for every enumerated string (incl. pre-escaped text), and that the branch structure of format_hms satisfies JudgeDuration at every boundary; "
                    "the real functions are judged by JudgeEscape + what lxml reads back, and JudgeDuration on the lexed output.")


def replay(rec):
    tu, etree = _tu()
    c = rec["case"]
    ev = esc_event(tu, etree, c["text"]) if c["k"] == "esc" else dur_event_us(tu, c["sec"], c["us"]) if "us" in c else dur_event(tu, c["sec"], c["ms"])
    ctx = vlib.Ctx("C20", "quick", 0, LEVEL, fresh=False)
    v = judge(ctx, "replay", [ev])[0]
    return v == "ok", {"verdict": v, "raw": ev["raw"]}
