"""Shared harness for the EBB3 link properties C04, C05, C15, C16.

Spec side: EBB3Ops (board, programs, failure/success values), EBB3Link (impl-shaped machine; its `hist` is a replayable
script with the environment's choices and the per-call observables), EBB3Trace (the abstract judge).
G: every complete history of a generating configuration is executed on a real EBBMotionWrap against a ScriptedPort.
V: seeded random histories against a policy-driven port with its own little board (cross-checked by the judge).
Every log is judged by TLC (EBB3Trace) with the checking property's clauses in focus.
"""
import os
import random

import ebbfake
import vlib

NONE = -1000001
RES_CODE = {0: 0, 1: 16, 2: 8, 3: 4, 4: 2, 5: 1}
VOID = {"query_nickname", "timed_pause", "xy_move", "abs_move", "motors_disable", "motors_enable", "clear_steps", "clear_accumulators", "pen_lower",
        "pen_raise", "dio_b_config", "pb_set", "pen_pos_down", "pen_pos_up", "pen_rate_down", "pen_rate_up", "servo_timeout", "record_error",
        "disconnect"}
VERSION_LINE = "EBBv13_and_above EB Firmware Version %s"
# = EBB3Ops!DevVersions (cross-checked by check_dev_versions)
DEV_VERSIONS = {"ebb_ok": "3.0.3", "ebb_late": "3.0.3", "ebb_old": "2.8.1", "ebb_min": "3.0.2", "ebb_below": "3.0.1", "ebb_v3_0_10": "3.0.10",
                "ebb_v10": "10.0.0", "ebb_v2_10_9": "2.10.9", "ebb_late_old": "2.8.1"}
LATE = ("ebb_late", "ebb_late_old")
VERSION_DEVS = ("ebb_min", "ebb_below", "ebb_v3_0_10", "ebb_v10", "ebb_v2_10_9")


def check_dev_versions():
    import re
    src = open(os.path.join(vlib.SPEC, "EBB3Ops.tla")).read()
    tab = src[src.index("DevVersions == ["):src.index("HasVersion(d)")]
    got = {m.group(1): "%s.%s.%s" % m.group(2, 3, 4) for m in re.finditer(r"(\w+) \|-> <<(\d+), (\d+), (\d+)>>", tab)}
    if got != DEV_VERSIONS:
        raise vlib.MachineryError("ebb3lib.DEV_VERSIONS and EBB3Ops!DevVersions disagree: %r" % (got,))


def mods():
    from plotink import ebb3_motion, ebb3_serial
    import serial
    return ebb3_motion, ebb3_serial, serial


def req_name(text):
    return text.split(",")[0].strip()


def render_payload(name, rep):
    vals, s = list(rep.get("vals", [])), rep.get("s", "")
    if name.upper() == "QT":
        return s
    if name.upper() == "QC":
        return ",".join("%04d" % v for v in vals)
    if name.upper() == "QG":
        return ",".join("%02X" % v for v in vals)
    return ",".join(str(v) for v in vals)


def payload_of_line(name, line):
    """the statement's rule for a successful query: the reply with the request's name and ONE separating comma removed"""
    rest = line[len(name):]
    return rest[1:] if rest.startswith(",") else rest


def render_reply(kind, name, rep, shape=""):
    p = render_payload(name, rep)
    if kind == "conf" and shape == "nc" and p != "":
        return name + p                    # no separating comma at all: nothing but the name is removed
    if kind == "conf" and shape == "dc":
        return name + ",," + p             # an empty first field: only ONE comma is the separator
    if kind == "conf":
        if p == "" and name.upper().startswith("Q"):
            return name + ","              # a query whose payload is empty still carries its separating comma (e.g. "QT," for no nickname)
        return name + ("," + p if p != "" else "")
    if kind == "errnamed":
        return name + ",Err: injected fault"
    if kind == "err":
        return "!8 Err: injected fault"
    if kind == "wrong":
        other = "ZZ" if not name.upper().startswith("Z") else "YY"     # must not begin with the request's name (not even its first letter)
        return other + "," + (p if p != "" else "3E")
    if kind == "trunc":
        t = name[:-1] + ("," + p if p != "" else "")
        return t if t else ","
    raise vlib.MachineryError("unknown reply kind " + kind)


class PyBoard:
    """the V-direction port's own device (the judge re-simulates EBB3Ops!Board from the writes and rejects any disagreement)"""

    def __init__(self, nick="Lab", m1=False, m2=False, res=1, volt=300):
        self.ram = [0] * 32
        self.nick, self.m1, self.m2, self.res, self.volt = nick, m1, m2, res, volt
        self.p1 = self.p2 = 0

    def receive(self, text):
        f = text.split(",")
        n = f[0]
        try:
            if n == "SL" and len(f) == 3 and 0 <= int(f[2]) <= 31 and 0 <= int(f[1]) <= 255:
                self.ram[int(f[2])] = int(f[1])
            elif n == "ST":
                self.nick = text[3:]
            elif n == "SM" and len(f) == 4:
                self.p1 += int(f[2])
                self.p2 += int(f[3])
            elif n == "CS":
                self.p1 = self.p2 = 0
            elif n == "EM" and len(f) == 3:
                e1, e2 = int(f[1]), int(f[2])
                self.m1, self.m2 = e1 != 0, e2 != 0
                if 1 <= e1 <= 5:
                    self.res = e1
        except ValueError:
            pass

    def reply(self, text):
        f = text.split(",")
        n = f[0]
        if n == "QL" and len(f) == 2:
            return {"vals": [self.ram[int(f[1])]], "s": ""}
        if n == "QT":
            return {"vals": [], "s": self.nick}
        if n == "QE":
            return {"vals": [RES_CODE[self.res] if self.m1 else 0, RES_CODE[self.res] if self.m2 else 0], "s": ""}
        if n == "QS":
            return {"vals": [self.p1, self.p2], "s": ""}
        if n == "QC":
            return {"vals": [394, self.volt], "s": ""}
        if n == "PI":
            return {"vals": [1], "s": ""}
        if n == "QG":
            return {"vals": [62], "s": ""}
        if n in ("QX", "V", "Q"):
            return {"vals": [7], "s": ""}
        return {"vals": [], "s": ""}


class ScriptedPort(ebbfake.PortExtras):
    """serial port whose every write/read outcome comes from a plan supplier; logs every operation in the judge's format"""

    def __init__(self, serial_mod, dev="ebb_ok", supplier=None):
        self.serial = serial_mod
        self.dev = dev
        self.supplier = supplier          # callable(text) -> plan for the primitive that writes `text`
        self.ops = []                     # ops of the current call
        self.cur = None                   # current primitive: {"name","e","o","r","reads"}
        self.probes = 0
        self.closed = False
        self.hand = None                  # pending handshake reply
        self.fresh = False                # just opened by connect(): nothing but probes written so far
        self.close_fault = ""             # "", "serial" or "notopen": what close() raises after closing; a suffix "+os" makes the injected
                                          # write/read failures plain OSError (= IOError) instead of pyserial's SerialException

    def begin_call(self):
        self.ops = []

    def _log_w(self, raw, raised):
        text = raw.decode("ascii", "replace")
        body = text[:-1] if text.endswith("\r") else text
        clean = text.endswith("\r") and "\r" not in body and "\n" not in body
        f = body.split(",")
        ints = []
        for x in f[1:]:
            try:
                ints.append(int(x))
            except ValueError:
                pass
        ints = [v for v in ints if abs(v) < 2 ** 31][:4]
        self.ops.append({"k": "w", "t": body, "clean": clean, "raised": raised, "kind": "", "vals": [], "s": "",
                         "n": f[0], "v": ints + [0, 0], "sarg": body[len(f[0]) + 1:]})
        return body

    def _log_r(self, kind, rep=None):
        rep = rep or {}
        self.ops.append({"k": "r", "t": "", "clean": True, "raised": kind == "raise", "kind": kind, "vals": list(rep.get("vals", [])), "s": rep.get("s", ""),
                         "n": "", "v": [0, 0], "sarg": ""})

    def write(self, raw):
        self.count_read(reset=True)
        text = raw.decode("ascii", "replace")
        body = text.rstrip("\r")
        if body == "v" or (body == "V" and self.fresh):            # identification probe (the EBB reads command names case-insensitively)
            self._log_w(raw, False)
            self.ops[-1]["t"] = "v"
            self.probes += 1
            self.cur = None
            d = self.dev
            if d == "raise_on_probe":
                self.hand = ("raise", None)
            elif d == "silent" or (d in LATE and self.probes == 1):
                self.hand = ("empty", None)
            elif d == "non_ebb":
                self.hand = ("line", "Hello, I am not the board you are looking for")
            elif d == "other_versioned":
                self.hand = ("line", "ACME PenPlotter Firmware Version 3.1.0")       # a version field, even a high one, does not make it an EBB
            elif d in DEV_VERSIONS and d not in ("ebb_ok", "ebb_late"):
                self.hand = ("line", VERSION_LINE % DEV_VERSIONS[d])
            elif d == "ebb_noversion":
                self.hand = ("line", "EBB")                                   # the letters, but no 'Firmware Version a.b.c' (e.g. a line cut short)
            elif d == "ebb_in_text":
                self.hand = ("line", "WEBBox controller rev 7")              # a foreign device whose banner happens to contain the letters
            else:
                self.hand = ("line", VERSION_LINE % DEV_VERSIONS.get(d, "3.0.3"))
            return len(raw)
        self.fresh = self.fresh and body in ("v", "V")
        if body == "CU,10,1":
            self._log_w(raw, False)
            self.cur = None
            self.hand = ("line", "OK")
            return len(raw)
        plan = self.supplier(body)
        if plan.get("w") == "raise":
            self._log_w(raw, True)
            self.cur = None
            raise self.io_exc("injected write failure")
        self._log_w(raw, False)
        self.cur = {"name": req_name(body), "e": plan.get("e", 0), "o": plan.get("o", "conf"), "r": plan.get("r") or {"vals": [], "s": ""}, "shape": plan.get("shape", ""), "reads": 0,
                    "done": False}
        self.hand = None
        return len(raw)

    def readline(self):
        self.count_read()
        if self.hand is not None:
            kind, text = self.hand
            self.hand = None
            if kind == "raise":
                self._log_r("raise")
                raise self.serial.SerialException("injected read failure")
            if kind == "empty":
                self._log_r("empty")
                return b""
            self._log_r("hand")
            return (text + "\r\n").encode("ascii")
        c = self.cur
        if c is None or c["done"]:
            self._log_r("empty")
            return b""
        c["reads"] += 1
        if c["o"] == "timeout" or c["reads"] <= c["e"]:
            self._log_r("empty")
            return b""
        if c["o"] == "raise":
            # the exception is about THIS read; the device has answered all the same and the line is there for whoever reads on
            # (the pinned code never does: the request has failed) - a request that swallows the exception and succeeds is judged
            self._log_r("raise")
            c["o"] = "conf"
            raise self.io_exc("injected read failure")
        c["done"] = True
        self._log_r(c["o"], c["r"])
        line = render_reply(c["o"], c["name"], c["r"], c.get("shape", ""))
        self.ops[-1]["line"] = line
        return (line + "\r\n").encode("ascii")

    @property
    def io_exc(self):
        return OSError if "+os" in self.close_fault else self.serial.SerialException

    def close(self):
        self.closed = True
        if self.close_fault.replace("+os", ""):
            CLOSE_RAISED.append(1)
            # the port is gone all the same (cable pulled): close() reports it, the object must still end up not connected
            kind = self.close_fault.replace("+os", "")
            if kind == "oserr":               # what os.close() raises when the device node is already gone (pyserial does not wrap it)
                raise OSError(6, "injected close failure: no such device")
            exc = self.serial.SerialException if kind == "serial" else self.serial.serialutil.PortNotOpenError
            raise exc() if kind != "serial" else exc("injected close failure")


def opt(v):
    return None if v == NONE else v


def dispatch(obj, m, a, s, ws=0):
    """the real call for model method m"""
    A = [opt(v) for v in a]
    pad = [("", ""), (" ", ""), ("", " \t"), ("  ", "\n")][ws % 4]
    if m in ("command", "query", "write_nickname"):
        text = pad[0] + s + pad[1]
        return getattr(obj, m)(text)
    if m == "pb_set":
        return obj.dio_b_set(*A)
    if m == "record_error":
        return obj.record_error("user-recorded error")
    if m == "connect" and ws % 4 == 1:
        return obj.connect(None, "harness")              # the optional arguments, at their documented "not given" values
    if m == "connect" and ws % 4 == 2:
        return obj.connect("Lab")                        # by the name the enumerated board carries (SER=Lab)
    if m in ("connect", "disconnect", "reboot", "bootload", "query_statusbyte", "query_nickname", "motors_disable", "motors_query_enabled", "query_steps",
             "clear_steps", "clear_accumulators", "query_current"):
        return getattr(obj, m)()
    if m == "query_voltage":
        return obj.query_voltage(A[0]) if A else obj.query_voltage()
    return getattr(obj, m)(*A)


def enc_ret(m, val, last_reply_text):
    if m in VOID and val is None:
        return ["void"]
    if isinstance(val, bool):
        return ["bool", val]
    if val is None:
        return ["none"]
    if isinstance(val, int):
        if not -2 ** 31 <= val < 2 ** 31:
            return ["other"]
        return ["int", val >> 16, val & 0xFFFF]          # two halves: -2^31 and friends survive JSON -> TLC
    if isinstance(val, (tuple, list)) and len(val) == 2:
        val = tuple(val)
        if val == (None, None):
            return ["nonepair"]
        if all(isinstance(x, int) and not isinstance(x, bool) for x in val):
            return ["pair", val[0], val[1]]
        return ["other"]
    if isinstance(val, str):
        return ["text_of_reply"] if val == last_reply_text else ["text_other"]
    return ["other"]


class Session:
    """one EBBMotionWrap object + scripted environment; run_call() executes one public call and returns the judge's record"""

    def __init__(self, dev="ebb_ok", start_connected=True, board=None, supplier=None, enumerated=True, close_fault=""):
        self.e3m, self.e3s, self.serial = mods()
        self.close_fault = close_fault
        self.start_connected = start_connected
        self.dev = dev
        self.supplier = supplier
        self.port = None
        self.obj = self.e3m.EBBMotionWrap()
        sess = self

        def factory(*_a, **_k):               # stands in for serial.Serial(port_name, timeout=1.0), however the arguments are passed
            if sess.dev == "unopenable":
                raise sess.serial.SerialException("could not open port")
            OPENED.append(1)
            sess.port = ScriptedPort(sess.serial, sess.dev, lambda text: sess.supplier(text))
            sess.port.close_fault = sess.close_fault
            sess.port.fresh = True
            sess.port.ops = sess.cur_ops
            return sess.port
        self.factory = factory
        self.cur_ops = []
        def enumerate_ports():
            if sess.dev == "absent":
                return iter([])
            from serial.tools.list_ports_common import ListPortInfo          # what pyserial 3 enumerates (indexable like the old triples)
            info = ListPortInfo("/dev/ttyACM0", True)
            info.description, info.hwid = "EiBotBoard,Lab", "USB VID:PID=04D8:FD92 SER=Lab LOCATION=1-1"
            return iter([info])
        self.e3s.comports = enumerate_ports
        self._orig_serial = self.e3s.serial.Serial
        self.e3s.serial.Serial = factory
        if start_connected:
            self.port = ScriptedPort(self.serial, dev, lambda text: sess.supplier(text))
            self.port.close_fault = close_fault
            self.obj.port = self.port
            self.obj.port_name = "/dev/ttyACM0"
            from packaging.version import parse
            self.obj.version, self.obj.version_parsed = "3.0.3", parse("3.0.3")

    def close(self):
        self.e3s.serial.Serial = self._orig_serial

    def run_call(self, m, a, s, ws=0):
        obj = self.obj
        err_before = obj.err
        dead_before = obj.port is None or obj.err is not None
        self.cur_ops = []
        if self.port is not None:
            self.port.ops = self.cur_ops
        rec = {"m": m, "a": list(a), "s": s, "dead_before": dead_before, "err_before": err_before is not None, "raised": False, "dev": self.dev,
               "ws": ws, "close_fault": self.close_fault, "started_unconnected": not self.start_connected}
        nclose = len(CLOSE_RAISED)
        try:
            val = dispatch(obj, m, a, s, ws)
        except ebbfake.Endless:
            rec["raised"] = True
            rec["exc"] = "does not return (more than %d reads in a row)" % ebbfake.MAX_READS
            self.cur_ops[:] = [o for o in self.cur_ops if o["k"] == "w"][:50]          # the reads of an endless loop are not evidence of anything else
            val = None
        except Exception as ex:  # pylint: disable=broad-except
            rec["raised"] = True
            rec["exc"] = type(ex).__name__ + ": " + str(ex)[:80]
            val = None
        ops = [o for o in self.cur_ops if o["kind"] != "hand"]
        last = None
        for o in self.cur_ops:
            if o["k"] == "r" and o["kind"] == "conf":
                last = o
        last_text = None
        if last is not None:
            wname = [o for o in self.cur_ops if o["k"] == "w"]
            nm = req_name(wname[-1]["t"]) if wname else ""
            last_text = payload_of_line(nm, last["line"]) if "line" in last else render_payload(nm, last)
        rec["ops"] = ops
        rec["close_raised"] = len(CLOSE_RAISED) > nclose          # close() complained during this call (the port was closed all the same)
        rec["ret"] = ["other"] if rec["raised"] else enc_ret(m, val, last_text)
        rec["err_set"] = obj.err is not None
        rec["err_same"] = obj.err is err_before
        rec["port_open"] = obj.port is not None
        rec["name"] = obj.name if isinstance(obj.name, str) else ""
        rec["val"] = repr(val)[:60]
        return rec


def event_of(calls, dev, board, focus):
    return {"dev": dev, "focus": focus, "nick0": board.get("nick", "Lab"), "m1": bool(board.get("m1", False)), "m2": bool(board.get("m2", False)),
            "res": board.get("res", 1), "volt": board.get("volt", 300),
            "calls": [{k: c[k] for k in ("m", "a", "s", "dev", "dead_before", "err_before", "raised", "ops", "ret", "err_set", "err_same", "port_open", "name", "close_raised")}
                      for c in calls]}


def judge(ctx, name, events, chunk=400):
    vs, stats = vlib.judge_events(os.path.join(ctx.workdir, name), "EBB3Trace", "EBB3Trace.cfg", events, chunk=chunk)
    ctx.states += stats["distinct"]
    ctx.transitions += stats["generated"]
    return vs


# ---------------------------------------------------------------------------
# G: scripts from the model
# ---------------------------------------------------------------------------

CLOSE_FAULTS = ["", "+os", "serial", "notopen", "", "serial+os", "oserr+os"]
CLOSE_RAISED = []                 # one entry per close() that raised (run_call looks at its growth)
OPENED = []                       # one entry per port the code under test opened through the stubbed serial.Serial


def run_script(hist, dev, board, start_connected, wsoff=0):
    """execute one TLC-generated history; returns (calls, drift) - drift = calls whose observables differ from the model's prediction.
    wsoff rotates the whitespace padding of request texts / the connect() argument form"""
    state = {"env": []}

    def supplier(text):
        env = state["env"]
        plan = {}
        if env and "w" in env[0]:
            plan["w"] = env.pop(0)["w"]
        else:
            plan["w"] = "ok"               # the model did not expect this write: answer conformingly, the judge will object
            plan["e"], plan["o"], plan["r"] = 0, "conf", PyBoard().reply(text)
            return plan
        if plan["w"] == "ok" and env and "o" in env[0]:
            nxt = env.pop(0)
            plan["e"], plan["o"] = nxt["e"], nxt["o"]
            r = nxt.get("r") or {}
            plan["r"] = {"vals": list(r.get("vals", [])), "s": r.get("s", "")}
        return plan

    sess = Session(dev, start_connected, board, supplier, close_fault=CLOSE_FAULTS[wsoff % len(CLOSE_FAULTS)])
    calls, drift = [], []
    try:
        for k, h in enumerate(hist):
            if h["m"] == "<replug>":               # the environment swaps the device while the port is closed
                sess.dev = h["s"]
                continue
            state["env"] = [dict(e) for e in h["env"]]
            rec = sess.run_call(h["m"], h["a"], h["s"], ws=(k + len(h["s"]) + wsoff) % 4)
            calls.append(rec)
            obs = h["obs"][0] if h["obs"] else None
            if obs is not None:
                want_ret = obs["ret"]
                if want_ret and want_ret[0] == "text":
                    want_ret = ["text_of_reply"]
                if want_ret and want_ret[0] == "int":
                    want_ret = ["int", want_ret[1] >> 16, want_ret[1] & 0xFFFF]
                got_w = [o["t"] for o in rec["ops"] if o["k"] == "w" and not o["raised"]]
                if got_w != list(obs["wr"]) or list(want_ret) != rec["ret"] or obs["errset"] != rec["err_set"] or obs["open"] != rec["port_open"]:
                    drift.append({"call": k + 1, "m": h["m"], "model": {"wr": list(obs["wr"]), "ret": list(want_ret), "errset": obs["errset"], "open": obs["open"]},
                                  "real": {"wr": got_w, "ret": rec["ret"], "errset": rec["err_set"], "open": rec["port_open"], "raised": rec.get("exc")}})
    finally:
        sess.close()
    return calls, drift


def scripts_from_dump(path, ncalls):
    for st in vlib.read_dump(path, only={"hist", "pc", "dev"}, prefilter='pc = "idle"'):
        if sum(1 for h in st["hist"] if h["m"] != "<replug>") == ncalls and st["hist"][-1]["m"] != "<replug>":
            yield st["hist"], st["hist"][0]["dv"], dict(st["hist"][0]["b0"]), st        # dv = the device on the bus before the first event


def board_of_init(b):
    return {"nick": b["nick"], "m1": b["m1"], "m2": b["m2"], "res": b["res"], "volt": b["volt"]}


def report(ctx, focus, mode, items, verdicts, prefix_ok):
    """items: list of (calls, dev, board, script); verdict strings 'ok' | 'skip@k' | 'clause@k'"""
    rej = skipped = 0
    for (calls, dev, board, script), v in zip(items, verdicts):
        if v == "ok":
            continue
        clause, _, at = v.partition("@")
        k = int(at or 1)
        if clause == "skip":
            skipped += 1
            continue
        if clause.startswith("desync"):
            raise vlib.MachineryError("harness board and EBB3Ops board disagree: %s in %r" % (v, [(c["m"], c["a"]) for c in calls]))
        rej += 1
        c = calls[k - 1]
        ctx.violation(clause, {"mode": mode, "dev": dev, "board": board, "script": script, "failing_call": k, "ws": [x.get("ws", 0) for x in calls],
                               "close_fault": calls[0].get("close_fault", ""), "start_connected": not calls[0].get("started_unconnected", False)},
                      "abstract semantics (focus %s)" % focus,
                      {"call": [c["m"], c["a"], c["s"]], "ret": c["val"], "raised": c.get("exc"), "err_set": c["err_set"], "port_open": c["port_open"],
                       "writes": [o["t"] for o in c["ops"] if o["k"] == "w"], "reads": [o["kind"] for o in c["ops"] if o["k"] == "r"][:30]})
    return rej, skipped


# ---------------------------------------------------------------------------
# V: random histories
# ---------------------------------------------------------------------------

def random_call(rng, alphabet):
    m = rng.choice(alphabet)
    R = rng.randint
    if m == "command":
        return m, [], rng.choice(["SM,100,0,0", "XM,5,1,-1", "SP,1,200", "TP", "CS", "S,5", "SC,4,%d" % R(1, 65535)])
    if m == "query":
        return m, [], rng.choice(["QX", "V", "Q,1", "QX", "QT"])
    if m == "write_nickname":
        return m, [], rng.choice(["Axi", "East Wing", "", "N%d" % R(0, 99), "Jerry", "BERRY 2", "okay", "Q7", "NextDraw-2234-A1", "QT-Plotter-No-16"])      # the last two: 16 characters, the longest name a board stores (with the padding the text handed over is longer)
    if m == "var_write":
        return m, [R(0, 255), R(0, 31)], ""
    if m == "var_read":
        return m, [R(0, 31)], ""
    if m == "var_write_int32":
        return m, [rng.choice([0, 1, -1, 2 ** 31 - 1, -2 ** 31, -2 ** 31 + 1, R(-2 ** 31, 2 ** 31 - 1), R(-70000, 70000)]), R(0, 28)], ""
    if m == "var_read_int32":
        return m, [R(0, 28)], ""
    if m == "timed_pause":
        return m, [rng.choice([0, 1, 750, 751, 1600, R(1, 2400)])], ""
    if m == "xy_move":
        return m, [R(-5000, 5000), R(-5000, 5000), R(1, 10000)], ""
    if m == "abs_move":
        return m, [R(1, 25000)] + rng.choice([[NONE, NONE], [R(-999, 999), R(-999, 999)], [0, 0]]), ""
    if m == "motors_enable":
        return m, [R(-1, 6), R(-1, 6)], ""
    if m in ("pen_lower", "pen_raise"):
        return m, [R(0, 2000), rng.choice([NONE, 0, 1, 2])], ""
    if m == "dio_b_config":
        return m, [R(0, 7), R(0, 1), R(0, 1)], ""
    if m == "pb_set":
        return m, [R(0, 7), R(0, 1)], ""
    if m == "dio_b_read":
        return m, [R(0, 7)], ""
    if m in ("pen_pos_down", "pen_pos_up", "pen_rate_down", "pen_rate_up"):
        return m, [R(1, 65535)], ""
    if m == "servo_timeout":
        return m, [R(0, 60000), rng.choice([NONE, 0, 1])], ""
    if m == "query_voltage":
        return m, [rng.choice([NONE, 250, 300, 301, 100])], ""
    return m, [], ""


ALL_METHODS = ["command", "query", "query_statusbyte", "reboot", "bootload", "query_nickname", "write_nickname", "var_write", "var_read", "var_write_int32",
               "var_read_int32", "timed_pause", "xy_move", "abs_move", "motors_disable", "motors_enable", "motors_query_enabled", "query_steps", "clear_steps",
               "clear_accumulators", "pen_lower", "pen_raise", "dio_b_config", "pb_set", "dio_b_read", "pen_pos_down", "pen_pos_up", "pen_rate_down",
               "pen_rate_up", "servo_timeout", "query_voltage", "query_current", "record_error", "connect", "disconnect"]


def random_history(rng, ncalls, fault_rate, alphabet=None, devs=("ebb_ok",), start_connected=True, boards=None):
    """returns (calls, dev, board, script) executed on a real object with a policy-driven port and a PyBoard"""
    alphabet = alphabet or ALL_METHODS
    dev = rng.choice(list(devs))
    b = rng.choice(boards) if boards else {"nick": "Lab", "m1": False, "m2": False, "res": 1, "volt": 300}
    pyb = PyBoard(b["nick"], b["m1"], b["m2"], b["res"], b["volt"])

    def supplier(text):
        name = req_name(text)
        poll = text == "QG"
        if rng.random() < fault_rate:
            k = rng.random()
            if k < 0.12:
                return {"w": "raise"}
            o = rng.choice(["err", "errnamed", "wrong", "trunc", "raise", "timeout", "timeout"] if not poll else ["err", "errnamed", "wrong", "raise", "timeout"])
            pyb.receive(text)              # the board acts on whatever it receives (as EBB3Ops!BoardAfter at the write)
            return {"w": "ok", "e": 0 if poll else rng.choice([0, 1, 3, 25]), "o": o, "r": pyb.reply(text)}
        pyb.receive(text)
        shape = rng.choice(["nc", "dc"]) if (name in ("QX", "Q") and rng.random() < 0.4) else ""       # only requests that the generic query() issues
        return {"w": "ok", "e": 0 if poll else rng.choice([0, 0, 0, 1, 2, 24, 25]), "o": "conf", "r": pyb.reply(text), "shape": shape}

    sess = Session(dev, start_connected, b, supplier, close_fault=rng.choice(CLOSE_FAULTS))
    calls, script = [], []
    pending = []
    try:
        for k in range(ncalls):
            if len(devs) > 1 and sess.obj.port is None and rng.random() < 0.15:
                sess.dev = rng.choice(list(devs))                    # the device is swapped while the port is closed
                script.append(["<replug>", [], sess.dev])
            if pending:
                m, a, s = pending.pop(0)
            else:
                m, a, s = random_call(rng, alphabet)
                if m == "var_write_int32" and rng.random() < 0.3:
                    # an overlapping rewrite: the same value at the same slot again after another write landed 1..3 slots above (or a single
                    # byte into the tail) - whatever the object remembers about "already written" must not survive the overlap
                    v, sl = a
                    sl = min(sl, 24)
                    k2 = rng.randint(1, 3)
                    other = ["var_write_int32", [rng.choice([0, -1, 16909060, rng.randint(-2 ** 31, 2 ** 31 - 1)]), sl + k2], ""] if rng.random() < 0.7 \
                        else ["var_write", [rng.randint(0, 255), sl + k2], ""]
                    m, a = "var_write_int32", [v, sl]
                    pending = [tuple(other), ("var_write_int32", [v, sl], ""), ("var_read_int32", [sl], "")]
                    pending = [p for p in pending if p[0] in alphabet]
                elif m not in ("connect", "disconnect", "reboot", "bootload", "record_error") and rng.random() < 0.12:
                    # the same request again, verbatim (optionally after one other request): every request transmits, whatever the object
                    # remembers of earlier ones ("exactly once" is per request, not per distinct request)
                    pending = ([random_call(rng, alphabet)] if rng.random() < 0.3 else []) + [(m, list(a), s)]
            script.append([m, a, s])
            calls.append(sess.run_call(m, a, s, ws=rng.randint(0, 3)))
    finally:
        sess.close()
    return calls, dev, b, script
