"""Scripted serial ports shared by the serial-layer checks (C04, C05, C06, C15, C16)."""

RES_CODE = {0: 0, 1: 16, 2: 8, 3: 4, 4: 2, 5: 1}
NO_OK = {"a", "i", "mr", "pi", "qm", "qg", "v"}


def req_name(text):
    """command name of a request line as the EBB sees it (letters before the first comma)"""
    return text.strip().split(",")[0]


class Endless(BaseException):
    """raised by a scripted port after far more consecutive reads than any request may make: the code under test does not return.
    (A BaseException, so that no `except Exception` / `except SerialException` of the code under test swallows it.)"""


MAX_READS = 3000


class PortExtras:
    """members of serial.Serial a caller may also touch; harmless here (a scripted port has nothing to flush and is always open)"""
    is_open = True
    timeout = 1.0
    write_timeout = 1.0
    baudrate = 9600
    name = port = "/dev/scripted"

    def flush(self):
        pass

    flushInput = flushOutput = reset_input_buffer = reset_output_buffer = cancel_read = cancel_write = flush

    def isOpen(self):  # pylint: disable=invalid-name
        return True

    def count_read(self, reset=False):
        """call from readline() (and with reset=True from write()): more than MAX_READS reads in a row means an endless loop"""
        self._reads_in_a_row = 0 if reset else getattr(self, "_reads_in_a_row", 0) + 1
        if self._reads_in_a_row > MAX_READS:
            raise Endless()

    in_waiting = 0                 # nothing is ever buffered ahead of a readline() here

    def inWaiting(self):  # pylint: disable=invalid-name
        return 0

    def read_until(self, *_a, **_k):
        return self.readline()

    def __enter__(self):
        return self

    def __exit__(self, *_a):
        self.close()


class LegacyOKPort(PortExtras):
    """legacy-syntax board that answers every request as documented (data line and/or OK)"""

    def __init__(self, version="2.8.1"):
        self.version = version
        self.writes = []
        self.q = []

    def write(self, data):
        self.count_read(reset=True)
        text = data.decode("ascii")
        self.writes.append(text)
        name = req_name(text).lower()
        if name == "v" and self.version is None:
            self.q.append("EBBv13_and_above EB\r\n")               # identifies itself, reports no version
        elif name == "v" and self.version == "":
            pass                                                     # silent: the version query times out
        elif name == "v":
            self.q.append("EBBv13_and_above EB Firmware Version %s\r\n" % self.version)
        elif name in NO_OK:
            self.q.append("PI,1\r\n" if name == "pi" else "1\r\n")
        elif name.startswith("q"):
            self.q.append({"qs": "0,0", "qc": "0394,0300", "ql": "5", "qp": "1", "qb": "0", "qt": "Lab"}.get(name, "0") + "\r\n")
            self.q.append("OK\r\n")
        else:
            self.q.append("OK\r\n")
        return len(data)

    def readline(self):
        self.count_read()
        return self.q.pop(0).encode("ascii") if self.q else b""

    def close(self):
        if getattr(self, "close_raises", False):
            import serial
            raise serial.SerialException("injected close failure (device already gone)")


class EchoPort(PortExtras):
    """EBB3 'future syntax' board: every reply starts with the request's name; queries carry a payload"""

    def __init__(self, qe=(0, 0), delay=0, close_raises=False):
        self.close_raises = close_raises
        self.writes = []
        self.q = []
        self.qe = qe
        self.delay = delay            # empty reads (timeouts) before every reply

    def payload(self, name, text):
        if name == "QE":
            return "%d,%d" % (RES_CODE[self.qe[0]], RES_CODE[self.qe[1]])
        return {"QS": "0,0", "QC": "0394,0300", "QL": "7", "QT": "Lab", "PI": "1", "QG": "3E"}.get(name)

    def write(self, data):
        self.count_read(reset=True)
        text = data.decode("ascii")
        self.writes.append(text)
        name = req_name(text)
        p = self.payload(name, text)
        self.q.extend([""] * self.delay)
        self.q.append((name + ("," + p if p is not None else "")) + "\r\n")
        return len(data)

    def readline(self):
        self.count_read()
        return self.q.pop(0).encode("ascii") if self.q else b""

    def close(self):
        if getattr(self, "close_raises", False):
            import serial
            raise serial.SerialException("injected close failure (device already gone)")
