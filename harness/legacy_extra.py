"""Extended coverage beyond the listed properties (DESIGN section 7 / 10.6): LegacyExtra.tla replayed into ebb_serial.testPort and
ebb_motion.query_enable_motors. Outcomes are reported as EXTENDED observations in the evidence of C07; never as a violation."""
import logging
import os

import ebbfake
import vlib


class HandshakePort(ebbfake.PortExtras):
    def __init__(self, serial_mod, dev):
        self.serial, self.dev = serial_mod, dev
        self.probes, self.closed, self.pending = 0, False, None

    def flushInput(self):
        pass

    reset_input_buffer = flushInput

    def write(self, data):
        if self.dev == "raise_on_write":
            raise self.serial.SerialException("injected")
        self.probes += 1
        if self.dev == "raise_on_read":
            self.pending = "raise"
        elif (self.dev == "ebb_first") or (self.dev == "ebb_second" and self.probes == 2):
            self.pending = b"EBBv13_and_above EB Firmware Version 2.8.1\r\n"
        elif self.dev == "non_ebb":
            self.pending = b"Hello\r\n"
        else:
            self.pending = b""
        return len(data)

    def readline(self):
        p, self.pending = self.pending, b""
        if p == "raise":
            raise self.serial.SerialException("injected")
        return p

    def close(self):
        self.closed = True


class PinPort(ebbfake.PortExtras):
    """legacy board answering the five PI pin reads of query_enable_motors"""

    def __init__(self, pins):
        self.pins, self.q, self.writes = pins, [], []

    def write(self, data):
        t = data.decode("ascii").strip()
        self.writes.append(t)
        key = {"PI,E,0": "en1", "PI,C,1": "en2", "PI,E,2": "ms1", "PI,E,1": "ms2", "PI,A,6": "ms3"}.get(t)
        self.q.append(("PI,%d\r\n" % (1 if self.pins[key] else 0)) if key else "OK\r\n")
        return len(data)

    def readline(self):
        return self.q.pop(0).encode("ascii") if self.q else b""

    def close(self):
        pass

    flushInput = reset_input_buffer = close


def run_stage(ctx):
    from plotink import ebb_serial, ebb_motion
    import serial
    ebb_serial.logger.handlers = [logging.NullHandler()]
    ebb_serial.logger.propagate = False
    dump = os.path.join(ctx.workdir, "extra", "states")
    ctx.run_tlc("extended.legacy_extra", "LegacyExtra", "LegacyExtra.cfg", dump=dump)
    obs = []
    seen_dev, seen_pins = set(), set()
    orig = ebb_serial.serial.Serial
    try:
        for st in vlib.read_dump(dump + ".dump", prefilter='pc = "done"'):
            dev = st["dev"]
            if dev not in seen_dev:
                seen_dev.add(dev)
                made = []

                def factory(name, timeout=None, _dev=dev, _made=made):
                    if _dev == "unopenable":
                        raise serial.SerialException("cannot open")
                    p = HandshakePort(serial, _dev)
                    _made.append(p)
                    return p
                ebb_serial.serial.Serial = factory
                try:
                    with vlib.time_limit(5.0):
                        got = ebb_serial.testPort("/dev/ttyACM0")
                    res = "port" if got is not None else "None"
                    exc = None
                except vlib.CallTimeout:
                    res, exc = "does not return", "CallTimeout"
                except Exception as ex:  # pylint: disable=broad-except
                    res, exc = "raised", type(ex).__name__
                probes = made[0].probes if made else 0
                closed = made[0].closed if made else False
                want_closed = dev in ("non_ebb", "silent")
                if res != st["ret"] or probes != st["probes"] or (want_closed and not closed):
                    obs.append({"stage": "testPort", "device": dev, "model": {"ret": st["ret"], "probes": st["probes"], "closed": st["closed"]},
                                "real": {"ret": res, "probes": probes, "closed": closed, "exception": exc}})
            key = tuple(sorted(st["pins"].items()))
            if key not in seen_pins:
                seen_pins.add(key)
                port = PinPort(st["pins"])
                try:
                    with vlib.time_limit(5.0):
                        got = ebb_motion.query_enable_motors(port)
                except vlib.CallTimeout:                      # an observation stage must not hang the check it rides on
                    got = ["does not return"]
                    if sum(1 for o in obs if o.get("real") == got) >= 3:
                        break
                if list(got) != list(st["dec"]):
                    obs.append({"stage": "query_enable_motors", "pins": st["pins"], "model": st["dec"], "real": list(got)})
    finally:
        ebb_serial.serial.Serial = orig
        os.remove(dump + ".dump")
    ctx.stage("extended.legacy_extra.G", kind="spec->code (outside the listed properties)", devices=len(seen_dev), pin_states=len(seen_pins),
              differences=len(obs))
    ctx.notes["extended_observations"] = obs[:10]
    for o in obs[:5]:
        print("EXTENDED-OBSERVATION property=%s (outside the listed statements) %s" % (ctx.pid, o))
