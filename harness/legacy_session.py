"""Extended coverage beyond the listed properties (DESIGN 10.1b): LegacySession.tla - discovery -> testPort -> openPort /
open_named_port -> closePort as one machine over a bus of ports - model-checked by TLC and replayed, history by history, into
ebb_serial.  Differences are reported as EXTENDED observations in the evidence of C19; never as a violation."""
import logging
import os

import ebbfake
import vlib

NAME_A, NAME_B = "Abe", "Bob"


def render_slot(slot, n):
    tag = (" SER=%s" % NAME_A) if slot["tag"] == "A" else ""
    if slot["c"] == "d":
        return ("/dev/ttyACM%d" % n, "EiBotBoard" + (("," + NAME_A) if tag else ""), "USB VID:PID=04D8:FD92%s LOCATION=1-1.%d" % (tag, n))
    if slot["c"] == "i":
        return ("COM%d" % n, "USB Serial Device (COM%d)" % n, "USB VID:PID=04D8:FD92%s LOCATION=1-2.%d" % (tag, n))
    return ("/dev/ttyUSB%d" % n, "FT232R USB UART", "USB VID:PID=0403:6001%s LOCATION=1-3.%d" % (tag, n))


class Handle(ebbfake.PortExtras):
    def __init__(self, serial_mod, slot_index, kind, close_raises):
        self.serial, self.slot, self.kind, self.close_raises = serial_mod, slot_index, kind, close_raises
        self.probes, self.open, self.pending, self.other_writes = 0, True, b"", []

    def flushInput(self):
        pass

    reset_input_buffer = flushInput

    def write(self, data):
        if data.strip().lower() != b"v":
            self.other_writes.append(data)
        if self.kind == "wfault":
            raise self.serial.SerialException("injected")
        self.probes += 1
        if self.kind == "rfault":
            self.pending = "raise"
        elif self.kind == "board" or (self.kind == "slow" and self.probes >= 2):
            self.pending = b"EBBv13_and_above EB Firmware Version 2.8.1\r\n"
        elif self.kind == "other":
            self.pending = b"Hello\r\n"
        else:
            self.pending = b""
        return len(data)

    def readline(self):
        p, self.pending = self.pending, b""
        if p == "raise":
            raise self.serial.SerialException("injected")
        return p

    def close(self):
        self.open = False
        if self.close_raises:
            raise self.serial.SerialException("injected at close")


def play(es, serial, bus, close_raises, hist):
    """-> list of differences between the model's history records and what the real functions did"""
    from serial.tools.list_ports_common import ListPortInfo
    ports = [render_slot(s, k + 3) for k, s in enumerate(bus)]
    objs = []
    for dev, desc, hwid in ports:
        o = ListPortInfo(dev, True)
        o.description, o.hwid = desc, hwid
        objs.append(o)
    handles = []

    def factory(name=None, *a, **kw):
        name = kw.get("port", name)
        k = [p[0] for p in ports].index(name)
        if bus[k]["k"] == "noopen":
            raise serial.SerialException("cannot open")
        h = Handle(serial, k + 1, bus[k]["k"], close_raises)
        handles.append(h)
        return h
    es.comports = lambda *a, **k: iter(list(objs))
    es.serial.Serial = factory
    held, given, diffs = None, set(), []
    for step, rec in enumerate(hist):
        before = len(handles)
        call = rec["call"]
        try:
            with vlib.time_limit(5.0):
                if call == "openPort":
                    got = es.openPort()
                elif call in ("openA", "openB"):
                    got = es.open_named_port(NAME_A if call == "openA" else NAME_B)
                elif call == "version":
                    got = es.queryVersion(held)
                elif call == "listInfo":
                    got = es.list_port_info()
                elif call == "closeLast":
                    got = es.closePort(held)
                else:
                    got = es.closePort(None)
            exc = None
        except vlib.CallTimeout:
            got, exc = None, "does not return"
        except Exception as ex:  # pylint: disable=broad-except
            got, exc = None, type(ex).__name__
        if call.startswith("open") and got is not None:
            held = got
            given.add(id(got))
        new = handles[before:]
        ans, nstrings = "n/a", 0
        if call == "version":
            ans = "none" if got is None else ("line" if isinstance(got, str) and got.startswith("EBB") else "other:%r" % (got,))
        if call == "listInfo":
            ans = "none" if got is None else ("list" if isinstance(got, list) and got == [x for p in ports for x in p] else "other:%r" % (got,))
            nstrings = len(got) if isinstance(got, list) else 0
        real = {"ret": (got.slot if isinstance(got, Handle) else (0 if got is None else -1)) if call.startswith("open") else 0,
                "probes": new[0].probes if new else 0, "nhandles": len(handles), "ans": ans, "nstrings": nstrings,
                "open": sorted(i + 1 for i, h in enumerate(handles) if h.open),
                "leaked": sorted(i + 1 for i, h in enumerate(handles) if h.open and id(h) not in given),
                "other_writes": sum(len(h.other_writes) for h in handles), "exception": exc}
        model = {"ret": rec["ret"], "probes": rec["probes"], "nhandles": rec["nhandles"], "ans": rec["ans"], "nstrings": rec["nstrings"], "open": sorted(rec["open"]), "leaked": sorted(rec["leaked"]),
                 "other_writes": 0, "exception": None}
        if real != model:
            diffs.append({"stage": "legacy_session", "bus": bus, "ports": ports, "close_raises": close_raises, "calls": [r["call"] for r in hist],
                          "at": step + 1, "model": model, "real": real})
            break
    return diffs


def run_stage(ctx):
    from plotink import ebb_serial
    import serial
    ebb_serial.logger.handlers = [logging.NullHandler()]
    ebb_serial.logger.propagate = False
    tier = ctx.tier
    wd = os.path.join(ctx.workdir, "session")
    os.makedirs(wd, exist_ok=True)
    # E1: the session machine itself; the strict no-leak wish must be REFUTED (the deviation is real in the model); liveness
    ctx.run_tlc("extended.legacy_session.e1", "LegacySession", "LegacySession_%s.cfg" % tier, coverage=True)
    pinned = ctx.run_tlc("extended.legacy_session.pinned", "LegacySession", "LegacySession_pinned.cfg", expect_ok=False)
    if pinned["violated"] != "NoLeak":
        raise vlib.MachineryError("LegacySession_pinned: TLC was expected to refute NoLeak (self-test of the leak bookkeeping)")
    ctx.run_tlc("extended.legacy_session.live", "LegacySession", "LegacySession_live.cfg")
    obs, n, leaks = [], 0, 0
    orig = (ebb_serial.comports, ebb_serial.serial.Serial)
    try:
        for cfg in (("g13", "g21") if tier == "quick" else ("g13", "g22")):
            dump = os.path.join(wd, cfg)
            ctx.run_tlc("extended.legacy_session." + cfg, "LegacySession", "LegacySession_%s.cfg" % cfg, dump=dump)
            want = {"g13": 3, "g21": 1, "g22": 2}[cfg]
            for st in vlib.read_dump(dump + ".dump", only={"bus", "closeRaises", "hist", "pc"}, prefilter='pc = "idle"'):
                if len(st["hist"]) != want:
                    continue
                n += 1
                leaks += 1 if st["hist"][-1]["leaked"] else 0
                if len(obs) < 40:
                    obs += play(ebb_serial, serial, list(st["bus"]), bool(st["closeRaises"]), list(st["hist"]))
            os.remove(dump + ".dump")
    finally:
        ebb_serial.comports, ebb_serial.serial.Serial = orig
    if n == 0:
        raise vlib.MachineryError("LegacySession: no complete history in the dumps")
    ctx.stage("extended.legacy_session.G", kind="spec->code (outside the listed properties)", histories=n, histories_ending_with_a_leaked_handle=leaks,
              differences=len(obs))
    ctx.notes.setdefault("extended_observations", [])
    ctx.notes["extended_observations"] += obs[:10]
    ctx.notes["named_deviation_LeakOnFault"] = ("testPort leaves the port object open (neither returned nor closed) when write() or readline() raises during the "
                                                "handshake; modelled, reproduced by %d replayed histories, outside every listed statement" % leaks)
    for o in obs[:5]:
        print("EXTENDED-OBSERVATION property=%s (outside the listed statements) %s" % (ctx.pid, o))
