"""Extended coverage beyond the listed properties: PlotMisc.tla replayed into the small geometric / kinematic helpers of plot_utils.
Differences are reported as EXTENDED observations in the evidence of C18; never as a violation."""
import math
import os

import vlib


def render_path(cmds, variant):
    """SVG path data text for a command list; variants: separators, implicit repetition of the command letter (a moveto is followed by
    implicit linetos of the same case), no space after the letter, leading whitespace"""
    sep = [" ", ",", " , ", " "][variant % 4]
    glue = ["", " "][(variant // 4) % 2]
    implicit = (variant // 8) % 2
    out, prev = [], None
    for k in cmds:
        c, a = k["c"], list(k["a"])
        nums = sep.join(str(v) for v in a)
        # the letter may be omitted when the command repeats - except that coordinates after a moveto are implicit LINETOs of the same case
        same = prev is not None and ((c == prev and c not in "Mm") or (prev == "M" and c == "L") or (prev == "m" and c == "l"))
        if implicit and same and a:
            out.append(nums)
        else:
            out.append(c + (glue if a else "") + nums)
        prev = c
    return ("  " if variant % 3 == 0 else "") + " ".join(out)


def path_stage(ctx, pu):
    """PathData.tla replayed into pathdata_first_point / pathdata_last_point"""
    dump = os.path.join(ctx.workdir, "extra_path", "states")
    ctx.run_tlc("extended.path_data", "PathData", "PathData_%s.cfg" % ctx.tier, dump=dump)
    obs, n = [], 0
    for st in vlib.read_dump(dump + ".dump"):
        n += 1
        for variant in ((n * 5) % 16, (n * 5 + 7) % 16):
            text = render_path(st["cmds"], variant)
            try:
                f, l = pu.pathdata_first_point(text), pu.pathdata_last_point(text)
                ok = f is not None and l is not None and all(math.isclose(x, y, abs_tol=1e-12) for x, y in zip(list(f) + list(l), list(st["first"]) + list(st["cur"])))
                got = [f, l]
            except Exception as ex:  # pylint: disable=broad-except
                ok, got = False, type(ex).__name__ + ": " + str(ex)[:40]
            if not ok and len(obs) < 20:
                obs.append({"helper": "pathdata_first_point/last_point", "path": text, "model": [list(st["first"]), list(st["cur"])], "real": got})
    os.remove(dump + ".dump")
    return obs, n


def run_stage(ctx):
    from plotink import plot_utils as pu
    dump = os.path.join(ctx.workdir, "extra", "states")
    ctx.run_tlc("extended.plot_misc", "PlotMisc", "PlotMisc.cfg", dump=dump)
    obs, n = [], 0
    for st in vlib.read_dump(dump + ".dump"):
        n += 1
        k, a, want = st["k"], st["in"], st["exp"][0]
        for scale in (1, 0.5, 4.0):
            try:
                if k == "square_dist":
                    got, w = pu.square_dist((a[0] * scale, a[1] * scale), (a[2] * scale, a[3] * scale)), want * scale * scale
                elif k == "points_near":
                    got, w = pu.points_near((a[0] * scale, a[1] * scale), (a[2] * scale, a[3] * scale), a[4] * scale * scale), want
                elif k == "distance":
                    got, w = pu.distance(a[0] * scale, a[1] * scale), want * scale
                elif k == "dot_clamped":
                    if scale != 1:
                        continue
                    got, w = pu.dotProductXY((a[0], a[1]), (a[2], a[3])), want
                elif k == "v_final":
                    got, w = pu.vFinal_Vi_A_Dx(a[0] * scale, a[1] * scale, a[2] * scale), (want * scale if want >= 0 else -1)
                else:
                    got, w = pu.vInitial_VF_A_Dx(a[0] * scale, a[1] * scale, a[2] * scale), (want * scale if want >= 0 else -1)
                ok = (got is w) if isinstance(w, bool) else math.isclose(got, w, rel_tol=1e-12, abs_tol=1e-12)
            except Exception as ex:  # pylint: disable=broad-except
                ok, got = False, type(ex).__name__
            if not ok and len(obs) < 20:
                obs.append({"helper": k, "in": a, "scale": scale, "model": w, "real": got})
    os.remove(dump + ".dump")
    # position_scale: inches to cm / mm / inch
    for code, f in ((0, 1.0), (1, 2.54), (2, 25.4), (7, 1.0)):
        x, y = pu.position_scale(2.0, -3.0, code)
        if not (math.isclose(x, 2.0 * f) and math.isclose(y, -3.0 * f)):
            obs.append({"helper": "position_scale", "in": [2.0, -3.0, code], "real": [x, y]})
    ctx.stage("extended.plot_misc.G", kind="spec->code (outside the listed properties)", vectors=n, differences=len(obs))
    pobs, pn = path_stage(ctx, pu)
    obs += pobs
    ctx.stage("extended.path_data.G", kind="spec->code (outside the listed properties)", vectors=pn, differences=len(pobs))
    ctx.notes["extended_observations"] = obs[:10]
    for o in obs[:5]:
        print("EXTENDED-OBSERVATION property=%s (outside the listed statements) %s" % (ctx.pid, o))
