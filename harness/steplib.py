"""Shared harness for the step-accumulator properties C01, C02, C03, C17.

Spec side: Stepper (the firmware tick machine), StepperLeap (BigInt closed forms), StepperTrace (judge).
G: TLC steps the machine at the real modulus 2^31 from a boundary universe; every state is a vector.
V: seeded random full-domain calls of ebb_calc are recorded and judged by TLC (StepperTrace).
"""
import os
import random

import vlib

M = 2 ** 31
MM1 = M - 1
CLEAR = -1


def mods():
    from plotink import ebb_calc, ebb_motion
    import mpmath
    return ebb_calc, ebb_motion, mpmath


def L(n):
    """BigInt record for the trace spec; non-integers are flagged by the caller."""
    return vlib.to_limbs(int(n))


def is_int(*vals):
    return all(isinstance(v, int) and not isinstance(v, bool) for v in vals)


_ACC_CALLS = [0]


def acc_arg(c):
    """the accumulator argument of a call: the text "clear" - every other time as a string object built at run time (as a caller gets
    it from a configuration file or a parsed message), equal to the literal but not the same object - or the number"""
    if c != CLEAR:
        return c
    _ACC_CALLS[0] += 1
    return "clear" if _ACC_CALLS[0] % 2 else "".join(["cl", "ear"])


class Raised:
    """what a call under test returned when it raised instead: a value that equals nothing, so every comparison reports it"""
    def __init__(self, exc):
        self.exc = exc

    def __repr__(self):
        return "raised %s: %s" % (type(self.exc).__name__, str(self.exc)[:70])

    def __eq__(self, other):
        return False

    def __ne__(self, other):
        return True

    __hash__ = object.__hash__


def norm1(v):
    """an integral value of another numeric type (numpy int, integral float / mpf) is the integer it equals: the statements speak of values"""
    if isinstance(v, (bool, int)):
        return v
    try:
        k = int(v)
        if v == k:
            return k
    except Exception:  # pylint: disable=broad-except
        pass
    return v


def norm(out):
    if isinstance(out, (tuple, list)):
        return tuple(norm1(v) for v in out)
    return norm1(out)


def call(fn, *args):
    """a call under test: an exception on a valid input is an observation (a violation), not a harness failure"""
    try:
        return norm(fn(*args))
    except Exception as exc:  # pylint: disable=broad-except
        return Raised(exc)


def ints(out, n=None):
    """out is a tuple of n integers (or one integer when n is None)"""
    if n is None:
        return is_int(out)
    return isinstance(out, tuple) and len(out) == n and is_int(*out)


# ---------------------------------------------------------------------------
# exact reference arithmetic used ONLY to pick interesting inputs and to propose LM witnesses
# (every verdict is TLC's; a wrong witness is a machinery error, never a violation)
# ---------------------------------------------------------------------------

def tdiv(x, k):
    return x // k if x >= 0 else -((-x) // k)


def r0_of(r, a, j=0):
    return r - tdiv(a, 2) + tdiv(j, 6)


def rate_at(r, a, j, k):
    return r0_of(r, a, j) + a * k + j * k * (k - 1) // 2


def clear_value(r, a, j=0):
    t1 = r0_of(r, a, j) + a
    if t1:
        return MM1 if t1 < 0 else 0
    t2 = a + j
    if t2:
        return MM1 if t2 < 0 else 0
    return MM1 if j < 0 else 0


def total_at(r, a, j, c, k):
    c0 = clear_value(r, a, j) if c == CLEAR else c
    return c0 + r0_of(r, a, j) * k + a * k * (k + 1) // 2 + j * (k - 1) * k * (k + 1) // 6


def in_domain(r, a, j, T, lo=-MM1, hi=MM1):
    """lo = -MM1: |.| <= 2^31-1 (C01, C17); lo = -M: the signed 32-bit range itself (C02)"""
    if T < 1:
        return False
    ks = {1, T}
    if j:
        f = (-a) // j
        ks |= {k for k in (f - 1, f, f + 1, f + 2) if 1 <= k <= T}
    return all(lo <= rate_at(r, a, j, k) <= hi for k in ks) and max(lo, -M) <= a + j * T <= MM1


def cnt_at(r, a, c, k):
    p = total_at(r, a, 0, c, k) // M
    r0 = r0_of(r, a)
    r1 = r0 + a
    d = (r1 > 0) - (r1 < 0) if r1 else (a > 0) - (a < 0)
    if a == 0 or d == 0 or ((a > 0) - (a < 0)) != -d:
        return abs(p)
    kr = r0 // (-a) if d > 0 else (-r0) // a
    if k <= kr:
        return abs(p)
    pr = total_at(r, a, 0, c, kr) // M
    return abs(pr) + abs(p - pr)


def lm_witness(steps, r, a, c, tmax=2 ** 33):
    """first tick at which cnt reaches steps, or None (never, or leaves the valid domain first)."""
    if abs(r0_of(r, a) + a) > MM1:             # tick 1; the adjusted start rate r0 itself is not a per-tick rate and may exceed the range
        return None
    # last tick with |rate| in range
    if a == 0:
        tlim = tmax
    else:
        r0 = r0_of(r, a)
        # |r0 + a k| <= MM1
        tlim = (MM1 - r0) // a if a > 0 else (MM1 + r0) // (-a)
        tlim = min(tlim, tmax)
    if tlim < 1 or cnt_at(r, a, c, tlim) < steps:
        return None
    lo, hi = 1, tlim
    while lo < hi:
        mid = (lo + hi) // 2
        if cnt_at(r, a, c, mid) >= steps:
            hi = mid
        else:
            lo = mid + 1
    return lo


# ---------------------------------------------------------------------------
# events
# ---------------------------------------------------------------------------

def ev_move(fn, r, a, j, c, T, out, dps, extra=None):
    ok = isinstance(out, tuple) and len(out) == 2 and is_int(*out)
    e = {"fn": fn, "r": r, "a": a, "j": j, "c": c, "T": L(T), "isint": ok, "raised": isinstance(out, Raised),
         "pos": L(out[0]) if ok else L(0), "acc": L(out[1]) if ok else L(0), "dps": dps, "raw": repr(out)[:80]}
    if extra:
        e.update(extra)
    return e


def ev_val(fn, r, a, j, T, out, dps):
    ok = is_int(out)
    return {"fn": fn, "r": r, "a": a, "j": j, "T": L(T), "isint": ok, "raised": isinstance(out, Raised), "val": L(out) if ok else L(0), "dps": dps,
            "raw": repr(out)[:60]}


def ev_lm(steps, r, a, c, out, lt, tw, dps, via="calculate_lm"):
    """lt: what move_dist_lt answered when fed the reported duration (None: not asked, the duration was not a positive integer)"""
    ok = isinstance(out, tuple) and len(out) == 3 and is_int(*out)
    haslt = lt is not None and isinstance(lt, tuple) and len(lt) == 2 and is_int(*lt)
    return {"fn": "lm", "steps": steps, "r": r, "a": a, "c": c, "isint": ok, "raised": isinstance(out, Raised), "ltbad": lt is not None and not haslt,
            "T": L(out[0]) if ok else L(0), "pos": L(out[1]) if ok else L(0), "acc": L(out[2]) if ok else L(0),
            "hasw": tw is not None, "Tw": L(tw or 0), "haslt": haslt,
            "ltpos": L(lt[0]) if haslt else L(0), "ltacc": L(lt[1]) if haslt else L(0), "dps": dps, "via": via,
            "raw": repr(out)[:80]}


def judge(ctx, name, events, chunk=4000):
    verdicts, stats = vlib.judge_events(os.path.join(ctx.workdir, name), "StepperTrace", "StepperTrace.cfg", events, chunk=chunk)
    ctx.states += stats["distinct"]
    ctx.transitions += stats["generated"]
    bad = [(e, v) for e, v in zip(events, verdicts) if v in ("badwitness", "badevent", "init")]
    if bad:
        raise vlib.MachineryError("StepperTrace machinery verdict %s for %r" % (bad[0][1], bad[0][0]))
    return verdicts


# ---------------------------------------------------------------------------
# G: full-scale stepped vectors
# ---------------------------------------------------------------------------

def stepped_vectors(ctx, name, cfg, module="StepperMC", keep=lambda st: st["tick"] >= 1):
    dump = os.path.join(ctx.workdir, name, "states")
    res = ctx.run_tlc(name, module, cfg, dump=dump, coverage=False)
    n = 0
    for st in vlib.read_dump(dump + ".dump"):
        if keep(st):
            n += 1
            yield st
    os.remove(dump + ".dump")
    ctx.stage(name + ".vectors", kind="spec->code", vectors=n, tlc_states=res["distinct"])


DPS_CHOICES = [1, 5, 15, 30, 60]


def rng_for(ctx, salt):
    return random.Random(ctx.seed * 1000003 + salt)


def rand_mag(rng, lim=MM1):
    """magnitude with a log-uniform-ish spread and boundary values"""
    k = rng.random()
    if k < 0.08:
        return rng.choice([0, 1, 2, 3, lim, lim - 1, 2 ** 30, 2 ** 30 - 1, 2 ** 30 + 1, 2 ** 29])
    bits = rng.randint(1, 31)
    return min(lim, rng.getrandbits(bits))


def rand_signed(rng, lim=MM1):
    v = rand_mag(rng, lim)
    return -v if rng.random() < 0.5 else v


def rand_acc(rng):
    k = rng.random()
    if k < 0.4:
        return CLEAR
    if k < 0.55:
        return rng.choice([0, 1, MM1, MM1 - 1, 2 ** 30])
    return rng.randint(0, MM1)
