"""Shared machinery for the plotink TLA+ checks.

 * run TLC (exhaustive / dump / simulate / trace validation) and parse its summary
 * parse TLA+ values as printed by TLC (state dumps, simulation files)
 * collect stage statistics, violations, known findings; write evidence + replay files

Exit codes of a check: 0 = property held on everything explored, 1 = VIOLATION,
2 = machinery failure (never reported as a violation).
"""
import json
import os
import re
import shutil
import subprocess
import sys
import time

ROOT = os.path.dirname(os.path.dirname(os.path.abspath(__file__)))
SPEC = os.path.join(ROOT, "spec")
OUT = os.environ.get("VERIF_OUT", os.path.join(ROOT, "out"))
EVDIR = os.environ.get("VERIF_EVIDENCE_DIR", os.path.join(ROOT, "evidence"))
REPO = os.environ.get("VERIF_REPO", "/repo")
JAR = "/opt/veriftools/tla/tla2tools.jar:/opt/veriftools/tla/CommunityModules-deps.jar"
NCPU = min(16, os.cpu_count() or 4)


class MachineryError(Exception):
    pass


def repo_import():
    """Make `import plotink` resolve to the tree under test ($VERIF_REPO, default /repo)."""
    if sys.path[0] != REPO:
        sys.path.insert(0, REPO)
    for name in list(sys.modules):
        if name == "plotink" or name.startswith("plotink."):
            del sys.modules[name]
    import plotink  # noqa: F401
    got = os.path.dirname(os.path.dirname(os.path.abspath(plotink.__file__)))
    if os.path.realpath(got) != os.path.realpath(REPO):
        raise MachineryError("plotink imported from %s, expected %s" % (got, REPO))


# ----------------------------------------------------------------------------
# TLA+ value parser (values as printed by TLC)
# ----------------------------------------------------------------------------

class _P:
    def __init__(self, s):
        self.s = s
        self.i = 0

    def ws(self):
        s, i = self.s, self.i
        n = len(s)
        while i < n and s[i] in " \t\r\n":
            i += 1
        self.i = i

    def peek(self, k=1):
        return self.s[self.i:self.i + k]

    def expect(self, tok):
        self.ws()
        if not self.s.startswith(tok, self.i):
            raise MachineryError("TLA parse: expected %r at %d: %r" % (tok, self.i, self.s[self.i:self.i + 40]))
        self.i += len(tok)

    def value(self):
        self.ws()
        s = self.s
        c = s[self.i]
        if c == '"':
            j = self.i + 1
            out = []
            while s[j] != '"':
                if s[j] == "\\":
                    j += 1
                    out.append({"n": "\n", "t": "\t", "r": "\r", "f": "\f"}.get(s[j], s[j]))
                else:
                    out.append(s[j])
                j += 1
            self.i = j + 1
            return "".join(out)
        if c == "<" and self.peek(2) == "<<":
            self.i += 2
            items = self.items(">>")
            return items
        if c == "{":
            self.i += 1
            items = self.items("}")
            return TSet(items)
        if c == "[":
            self.i += 1
            self.ws()
            d = {}
            if self.peek() == "]":
                self.i += 1
                return d
            while True:
                self.ws()
                m = re.compile(r"[A-Za-z_][A-Za-z0-9_]*").match(s, self.i)
                if not m:
                    raise MachineryError("TLA parse: field name at %d" % self.i)
                k = m.group(0)
                self.i = m.end()
                self.expect("|->")
                d[k] = self.value()
                self.ws()
                if self.peek() == ",":
                    self.i += 1
                    continue
                self.expect("]")
                return d
        if c == "(":
            self.i += 1
            d = {}
            while True:
                k = self.value()
                self.expect(":>")
                v = self.value()
                d[_hashable(k)] = v
                self.ws()
                if self.peek(2) == "@@":
                    self.i += 2
                    continue
                self.expect(")")
                return d
        m = re.compile(r"(-?\d+)\.\.(-?\d+)").match(s, self.i)
        if m:                                   # an interval a..b, printed by TLC for contiguous integer sets
            self.i = m.end()
            return TSet(range(int(m.group(1)), int(m.group(2)) + 1))
        m = re.compile(r"-?\d+").match(s, self.i)
        if m:
            self.i = m.end()
            return int(m.group(0))
        m = re.compile(r"[A-Za-z_][A-Za-z0-9_]*").match(s, self.i)
        if m:
            self.i = m.end()
            w = m.group(0)
            if w == "TRUE":
                return True
            if w == "FALSE":
                return False
            return ModelValue(w)
        raise MachineryError("TLA parse: unexpected %r at %d" % (s[self.i:self.i + 30], self.i))

    def items(self, close):
        out = []
        self.ws()
        if self.s.startswith(close, self.i):
            self.i += len(close)
            return out
        while True:
            out.append(self.value())
            self.ws()
            if self.peek() == ",":
                self.i += 1
                continue
            self.expect(close)
            return out


class TSet(list):
    """A TLA+ set, kept as a list (elements may be unhashable)."""


class ModelValue(str):
    pass


def _hashable(v):
    if isinstance(v, list):
        return tuple(_hashable(x) for x in v)
    if isinstance(v, dict):
        return tuple(sorted((k, _hashable(x)) for k, x in v.items()))
    return v


_FLATSEQ = re.compile(r"^<<[-0-9, ]*>>$")


def parse_tla(text):
    if _FLATSEQ.match(text):
        body = text[2:-2].strip()
        return [int(x) for x in body.split(",")] if body else []
    p = _P(text)
    v = p.value()
    p.ws()
    if p.i != len(p.s):
        raise MachineryError("TLA parse: trailing text %r" % p.s[p.i:p.i + 40])
    return v


_VAR = re.compile(r"^/\\ ([A-Za-z_][A-Za-z0-9_]*) = (.*)$", re.S)


def read_dump(path, only=None, prefilter=None):
    """Yield one dict per state of a `tlc -dump` file. `only`: set of variable names to
    parse (others skipped); `prefilter`: substring that must occur in the state's text."""
    with open(path) as fh:
        block = []
        for line in fh:
            if line.startswith("State "):
                block = []
            elif line.strip() == "":
                if block:
                    st = _state(block, only, prefilter)
                    if st is not None:
                        yield st
                block = []
            else:
                block.append(line.rstrip("\n"))
        if block:
            st = _state(block, only, prefilter)
            if st is not None:
                yield st


def _state(lines, only, prefilter):
    if prefilter is not None and not any(prefilter in l for l in lines):
        return None
    # join continuation lines (a variable line starts with "/\ name = ")
    st = {}
    cur = None
    for l in lines:
        m = _VAR.match(l)
        if m and (cur is None or _balanced(cur[1])):
            if cur:
                _put(st, cur, only)
            cur = [m.group(1), m.group(2)]
        elif cur:
            cur[1] += "\n" + l
    if cur:
        _put(st, cur, only)
    return st


def _balanced(t):
    return t.count("<<") == t.count(">>") and t.count("[") == t.count("]") and t.count("(") == t.count(")") \
        and t.count("{") == t.count("}")


def _put(st, cur, only):
    if only is None or cur[0] in only:
        st[cur[0]] = parse_tla(cur[1])


_SIMHDR = re.compile(r"^\\\* <(.*?)( line \d+.*)?>\s*$")


def read_sim_file(path):
    """Parse one behaviour file written by `tlc -simulate file=...`: list of (action, state)."""
    steps = []
    with open(path) as fh:
        text = fh.read()
    # blocks look like:  \* <Action line .. of module M>\nSTATE_3 == \n/\ x = 1\n/\ y = 2\n\n
    act = None
    block = []
    for line in text.split("\n"):
        m = _SIMHDR.match(line)
        if m:
            act = m.group(1)
            continue
        if line.startswith("STATE_"):
            block = []
            rest = line.split("==", 1)[1].strip()
            if rest:
                block.append(rest)
            continue
        if line.strip() == "" or line.startswith("===="):
            if block:
                steps.append((act, _state(block, None, None)))
                block = []
            continue
        if block is not None and (line.startswith("/\\") or block):
            block.append(line)
    return steps


# ----------------------------------------------------------------------------
# running TLC
# ----------------------------------------------------------------------------

_SUMMARY = re.compile(r"(\d+) states generated, (\d+) distinct states found, (\d+) states left on queue")
_COV = re.compile(r"^<(\w+) line (\d+), col \d+ to line \d+, col \d+ of module (\w+)>: (\d+):(\d+)")


def tlc(workdir, module, cfg, *, workers=None, dump=None, simulate=None, depth=None, seed=None, coverage=False,
        env=None, timeout=1500, java_opts=(), deadlock=False, extra=()):
    """Run TLC on spec/<module>.tla with spec/<cfg>. Returns a dict with the parsed summary.
    Raises MachineryError on anything but 'no error' / 'invariant violated'."""
    os.makedirs(workdir, exist_ok=True)
    meta = os.path.join(workdir, "meta")
    shutil.rmtree(meta, ignore_errors=True)
    jtmp = os.path.join(workdir, "jtmp")          # TLC / SANY leave a temp directory per run behind: keep them out of /tmp and remove them
    os.makedirs(jtmp, exist_ok=True)
    cmd = ["java", "-XX:+UseParallelGC", "-Xss16m", "-Djava.io.tmpdir=" + jtmp] + list(java_opts) + ["-cp", JAR, "tlc2.TLC",
           "-metadir", meta, "-noGenerateSpecTE",
           "-workers", str(workers or NCPU)]
    if coverage:
        cmd += ["-coverage", "1"]
    if dump:
        os.makedirs(os.path.dirname(dump), exist_ok=True)
        cmd += ["-dump", dump]
    if simulate:
        cmd += ["-simulate", simulate]
    if depth:
        cmd += ["-depth", str(depth)]
    if seed is not None:
        cmd += ["-seed", str(seed)]
    if deadlock:
        cmd += ["-deadlock"]
    cmd += list(extra)
    cmd += ["-config", os.path.join(SPEC, cfg), os.path.join(SPEC, module + ".tla")]
    e = dict(os.environ)
    e.update(env or {})
    t0 = time.time()
    try:
        pr = subprocess.run(cmd, cwd=SPEC, env=e, capture_output=True, text=True, timeout=timeout)
    except subprocess.TimeoutExpired:
        subprocess.run(["pkill", "-f", meta], check=False)
        shutil.rmtree(jtmp, ignore_errors=True)
        raise MachineryError("TLC timeout after %ss: %s %s" % (timeout, module, cfg))
    shutil.rmtree(jtmp, ignore_errors=True)
    out = pr.stdout + pr.stderr
    with open(os.path.join(workdir, "tlc.log"), "w") as fh:
        fh.write(" ".join(cmd) + "\n" + out)
    res = {"module": module, "cfg": cfg, "wall_s": round(time.time() - t0, 2), "log": os.path.join(workdir, "tlc.log"),
           "generated": 0, "distinct": 0, "actions": {}, "ok": False, "violated": None, "output": out}
    for m in _SUMMARY.finditer(out):
        res["generated"], res["distinct"] = int(m.group(1)), int(m.group(2))
    if coverage:
        for line in out.split("\n"):
            m = _COV.match(line.strip())
            if m:
                key = m.group(1)
                # keep the last report (final coverage)
                res["actions"][key + "@" + m.group(2)] = [int(m.group(4)), int(m.group(5))]
    shutil.rmtree(meta, ignore_errors=True)
    if "Model checking completed. No error has been found." in out or \
            (simulate and pr.returncode == 0 and "Error:" not in out):
        res["ok"] = True
        return res
    m = re.search(r"Error: Invariant (\w+) is violated", out)
    if m:
        res["violated"] = m.group(1)
        return res
    m = re.search(r"Error: Action property (\w+) is violated", out)
    if m:
        res["violated"] = m.group(1)
        return res
    if "Temporal properties were violated" in out:
        res["violated"] = "temporal property (liveness)"
        return res
    if "is violated" in out:
        m = re.search(r"Error: (.*is violated.*)", out)
        res["violated"] = m.group(1) if m else "?"
        return res
    raise MachineryError("TLC failed (%s %s), see %s:\n%s" % (module, cfg, res["log"], out[-3000:]))


def tlc_error_trace(out):
    """Extract the states of a TLC counterexample trace from its output."""
    states = []
    block = None
    for line in out.split("\n"):
        if re.match(r"^State \d+: ", line):
            if block:
                states.append(_state(block, None, None))
            block = []
        elif block is not None:
            if line.strip() == "" or not (line.startswith("/\\") or (block and not _balanced(block[-1]))):
                if block:
                    states.append(_state(block, None, None))
                block = None
            else:
                block.append(line)
    if block:
        states.append(_state(block, None, None))
    return states


# ----------------------------------------------------------------------------
# check context: stages, violations, known findings, evidence
# ----------------------------------------------------------------------------

def load_known():
    p = os.path.join(ROOT, "known_findings.json")
    if not os.path.exists(p):
        return []
    with open(p) as fh:
        return json.load(fh).get("findings", [])


class Ctx:
    def __init__(self, pid, tier, seed, level, fresh=True):
        self.pid, self.tier, self.seed, self.level = pid, tier, seed, level
        self.t0 = time.time()
        self.stages = []
        self.violations = []
        self.known_hits = {}
        self.drift = []
        self.samples = []
        self.states = 0
        self.transitions = 0
        self.traces = 0
        self.evaluations = 0
        self.distinct = set()
        self.skipped = 0
        self.assumptions = []
        self.trusted = []
        self.notes = {}
        self.exhaustive = False
        self.workdir = os.path.join(OUT, pid)
        os.makedirs(self.workdir, exist_ok=True)
        self.replaydir = os.path.join(OUT, "replays", pid)
        if fresh:
            shutil.rmtree(self.replaydir, ignore_errors=True)
        self.open_known = [k for k in load_known() if k.get("property") == pid and k.get("status") == "open"]

    # -- stage bookkeeping
    def stage(self, name, **kw):
        d = {"stage": name}
        d.update(kw)
        self.stages.append(d)
        return d

    def run_tlc(self, name, module, cfg, expect_ok=True, **kw):
        """Run an exhaustive TLC stage; count states/transitions; a violated invariant of the
        *design* is reported by the caller (returns the result)."""
        wd = os.path.join(self.workdir, name)
        res = tlc(wd, module, cfg, **kw)
        self.states += res["distinct"]
        self.transitions += res["generated"]
        st = self.stage(name, kind="tlc", module=module, cfg=cfg, distinct_states=res["distinct"],
                        states_generated=res["generated"], wall_s=res["wall_s"], ok=res["ok"], violated=res["violated"])
        if res["actions"]:
            st["action_coverage"] = res["actions"]
            zero = [a for a, (n, _d) in res["actions"].items() if n == 0 and not a.startswith("Init")]
            if zero and res["ok"]:
                st["never_taken"] = zero
        if expect_ok and not res["ok"]:
            raise MachineryError("TLC stage %s: %s violated on the specification itself (spec-level result, see %s)"
                                 % (name, res["violated"], res["log"]))
        return res

    def sample(self, s, cap=6):
        if len(self.samples) < cap:
            self.samples.append(s)

    def count(self, key=None, nontrivial=True):
        self.evaluations += 1
        if nontrivial and key is not None and len(self.distinct) < 5_000_000:
            self.distinct.add(key)

    # -- verdicts
    def violation(self, clause, case, expected=None, observed=None, input_class=None, what=""):
        """Record a violation of the property statement. input_class (decided from the input
        alone) is matched against open known findings."""
        for k in self.open_known:
            if input_class is not None and k.get("input_class") == input_class:
                h = self.known_hits.setdefault(k["id"], {"k": k, "n": 0, "example": case})
                h["n"] += 1
                return
        if len(self.violations) >= 200:
            self.violations.append(None)
            return
        os.makedirs(self.replaydir, exist_ok=True)
        path = os.path.join(self.replaydir, "v%03d_%s.json" % (len(self.violations) + 1, re.sub(r"\W+", "_", clause)[:40]))
        with open(path, "w") as fh:
            json.dump({"property": self.pid, "clause": clause, "what": what, "case": case, "expected": expected,
                       "observed": observed, "input_class": input_class, "repo": REPO}, fh, indent=1, default=_js)
        self.violations.append(path)

    def enough(self, n=60):
        """a run that has already recorded many violations need not grind on (keeps a broken tree from taking hours)"""
        return len(self.violations) >= n

    def note_drift(self, what, case):
        if len(self.drift) < 20:
            self.drift.append({"what": what, "case": case})

    def finish(self, rule, explanation="", extra=None):
        wall = round(time.time() - self.t0, 2)
        cov = {
            "states": self.states, "transitions": self.transitions,
            "traces_validated_against_impl": self.traces,
            "evaluations": self.evaluations,
            "distinct_nontrivial": len(self.distinct),
            "rule": rule, "samples": self.samples or ["(none)"],
            "exhaustive": bool(self.exhaustive),
            "exhaustive_scope": "the TLC stages (kind = tlc) explored their bounded universes completely; spec->code and code->spec stages cover "
                                "what their own entries say (vectors / executed / histories)",
            "skipped_out_of_domain": self.skipped,
            "stages": self.stages,
            "drift": self.drift,
            "known_findings_hit": [{"id": i, "count": h["n"], "example": h["example"]} for i, h in self.known_hits.items()],
            "trusted_base": self.trusted,
            "explanation": explanation,
            "repo": REPO,
        }
        cov.update(self.notes)
        if extra:
            cov.update(extra)
        nviol = len(self.violations)
        ev = {"property_id": self.pid, "tier": self.tier, "seed": self.seed, "level": self.level, "coverage": cov,
              "assumptions": self.assumptions, "wall_s": wall, "violations": nviol}
        check_evidence(ev)
        os.makedirs(EVDIR, exist_ok=True)
        with open(os.path.join(EVDIR, self.pid + ".json"), "w") as fh:
            json.dump(ev, fh, indent=1, default=_js)
            fh.write("\n")
        for i, h in self.known_hits.items():
            print("KNOWN-FINDING: property=%s %s (%d cases this run; id=%s)" % (self.pid, h["k"]["what"], h["n"], i))
        for d in self.drift[:5]:
            print("DRIFT property=%s %s" % (self.pid, d["what"]))
        seen = set()
        for p in self.violations:
            if p and p not in seen:
                seen.add(p)
                print("VIOLATION property=%s replay=%s" % (self.pid, p))
        print("%s %s tier=%s seed=%d states=%d transitions=%d evaluations=%d traces=%d distinct=%d skipped=%d violations=%d wall=%.1fs"
              % ("FAIL" if nviol else "PASS", self.pid, self.tier, self.seed, self.states, self.transitions,
                 self.evaluations, self.traces, len(self.distinct), self.skipped, nviol, wall))
        return 1 if nviol else 0


def _js(o):
    if isinstance(o, (set, frozenset, tuple)):
        return list(o)
    if isinstance(o, bytes):
        return o.decode("latin1")
    return repr(o)


def check_evidence(ev):
    """Minimal structural validation mirroring EVIDENCE.schema.json (jsonschema is not in /venv)."""
    for k in ("property_id", "tier", "seed", "level", "coverage", "wall_s"):
        if k not in ev:
            raise MachineryError("evidence lacks " + k)
    c = ev["coverage"]
    if ev["level"] == "model_checking":
        if not (c["states"] >= 1 and c["transitions"] >= 1 and len(c["samples"]) >= 1):
            raise MachineryError("model_checking evidence needs states/transitions/samples >= 1")
    else:
        if not (c["evaluations"] >= 1 and c["distinct_nontrivial"] >= 2 and len(c["samples"]) >= 1):
            raise MachineryError("evidence needs evaluations>=1, distinct_nontrivial>=2, samples")


# ----------------------------------------------------------------------------
# number encodings shared with the specs
# ----------------------------------------------------------------------------

LIMB = 32768


def to_limbs(n):
    """sign + little-endian limbs base 2^15 (BigInt.tla representation)."""
    s = -1 if n < 0 else (1 if n > 0 else 0)
    n = abs(n)
    d = []
    while n:
        d.append(n % LIMB)
        n //= LIMB
    return {"s": s, "d": d}


def from_limbs(v):
    n = 0
    for x in reversed(v["d"]):
        n = n * LIMB + x
    return n * (v["s"] if v["s"] else 0)


# ----------------------------------------------------------------------------
# generic "one verdict per event" trace judging (specs with variables i, verdict)
# ----------------------------------------------------------------------------

def judge_events(workdir, module, cfg, events, chunk=20000, env=None, timeout=1500, extra_vars=()):
    """Write events as ndjson, run the trace spec, return one verdict (string) per event.
    Chunks run as parallel TLC processes (one worker each; the behaviour is linear)."""
    import concurrent.futures as cf
    os.makedirs(workdir, exist_ok=True)
    chunks = [events[k:k + chunk] for k in range(0, len(events), chunk)] or [[]]
    stats = {"generated": 0, "distinct": 0}

    def one(idx):
        wd = os.path.join(workdir, "c%03d" % idx)
        os.makedirs(wd, exist_ok=True)
        tf = os.path.join(wd, "trace.ndjson")
        with open(tf, "w") as fh:
            for e in chunks[idx]:
                fh.write(json.dumps(e) + "\n")
        dump = os.path.join(wd, "states")
        e2 = {"TRACE_FILE": tf}
        e2.update(env or {})
        res = tlc(wd, module, cfg, workers=1, dump=dump, env=e2, timeout=timeout)
        verdicts = {}
        for st in read_dump(dump + ".dump", only={"i", "verdict"} | set(extra_vars)):
            verdicts[st["i"]] = st["verdict"] if not extra_vars else st
        os.remove(dump + ".dump")
        os.remove(tf)
        if len(verdicts) != len(chunks[idx]) + 1:
            raise MachineryError("%s: %d verdicts for %d events (see %s)" % (module, len(verdicts) - 1, len(chunks[idx]), res["log"]))
        return [verdicts[k + 1] for k in range(len(chunks[idx]))], res

    out = []
    with cf.ThreadPoolExecutor(max_workers=max(1, NCPU // 2)) as ex:
        for vs, res in ex.map(one, range(len(chunks))):
            out.extend(vs)
            stats["generated"] += res["generated"]
            stats["distinct"] += res["distinct"]
    return out, stats


# ----------------------------------------------------------------------------
# per-call time limit (non-termination is a reportable outcome, not a hang of the check)
# ----------------------------------------------------------------------------

class CallTimeout(Exception):
    pass


class time_limit:
    def __init__(self, seconds):
        self.seconds = seconds

    def _raise(self, *_a):
        raise CallTimeout()

    def __enter__(self):
        import signal
        self._old = signal.signal(signal.SIGALRM, self._raise)
        signal.setitimer(signal.ITIMER_REAL, self.seconds)

    def __exit__(self, *a):
        import signal
        signal.setitimer(signal.ITIMER_REAL, 0)
        signal.signal(signal.SIGALRM, self._old)
        return False


# ----------------------------------------------------------------------------
# Apalache (symbolic, unbounded integers)
# ----------------------------------------------------------------------------

def apalache(ctx, name, module, obligations, timeout=400):
    """obligations: list of (label, [apalache args]). Returns True iff all discharged; a refuted obligation is a machinery error
    (the specification itself is wrong); a timeout only weakens the evidence (recorded)."""
    out = os.path.join(ctx.workdir, "apa_" + name)
    res = []
    for label, args in obligations:
        t0 = time.time()
        try:
            jtmp = os.path.join(out, "jtmp")          # SANY (inside Apalache) leaves a temp directory per run: keep it out of /tmp
            os.makedirs(jtmp, exist_ok=True)
            aenv = dict(os.environ)
            aenv["JVM_ARGS"] = (aenv.get("JVM_ARGS", "") + " -Djava.io.tmpdir=" + jtmp).strip()
            pr = subprocess.run(["apalache-mc", "check"] + list(args) + ["--out-dir=" + out, os.path.join(SPEC, module + ".tla")],
                                capture_output=True, text=True, timeout=timeout, cwd=ctx.workdir, env=aenv)
            shutil.rmtree(jtmp, ignore_errors=True)
            ok = "EXITCODE: OK" in pr.stdout and "NoError" in pr.stdout
            bad = "EXITCODE: ERROR" in pr.stdout and "violat" in pr.stdout.lower()
        except subprocess.TimeoutExpired:
            ok, bad = False, False
        res.append({"obligation": label, "discharged": ok, "wall_s": round(time.time() - t0, 1)})
        if bad:
            raise MachineryError("Apalache refutes %s (%s): the specification is wrong" % (module, label))
    shutil.rmtree(out, ignore_errors=True)
    ctx.stage("e2.apalache." + name, kind="apalache (unbounded integers)", module=module, obligations=res)
    ctx.notes.setdefault("apalache_obligations", []).extend(res)
    return all(r["discharged"] for r in res)
