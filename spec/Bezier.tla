------------------------------- MODULE Bezier -------------------------------
(* E1/G machine for C10: the subdivideCubicPath index walk (check piece i; if  *)
(* not flat split it at 1/2, rewrite the two handles in place, insert the new  *)
(* node, look at the same i again), one action per loop iteration.             *)
EXTENDS BezierOps, TLC
CONSTANTS N,        \* control points on the lattice 0..N (scaled by SC)
          NPieces,  \* 1 or 2 original pieces
          Tols      \* set of <<tn, td>> squared flatness values (lattice units)
VARIABLES inn, tol, sp, lvl, i, pc, orig
\* lvl[k] = subdivision depth of piece k of sp ; orig = positions of the input nodes in sp
vars == <<inn, tol, sp, lvl, i, pc, orig>>
Lat == {<<x * SC, y * SC>> : x \in 0..N, y \in 0..N}
HIn == <<7 * SC, 5 * SC>>      \* marker outer handles (must come through untouched)
HOut == <<3 * SC, 9 * SC>>
Init ==
  /\ tol \in Tols
  /\ \/ /\ NPieces = 1
        /\ \E p0 \in Lat, p1 \in Lat, p2 \in Lat, p3 \in Lat : inn = << <<HIn, p0, p1>>, <<p2, p3, HOut>> >>
     \/ /\ NPieces = 2
        /\ \E p0 \in Lat, p1 \in Lat, p2 \in Lat, p3 \in Lat, q1 \in Lat, q2 \in Lat, q3 \in Lat :
             inn = << <<HIn, p0, p1>>, <<p2, p3, q1>>, <<q2, q3, HOut>> >>
  /\ sp = inn /\ i = 1 /\ pc = "run"
  /\ lvl = [k \in 1..NPieces |-> 0] /\ orig = [k \in 1..(NPieces + 1) |-> k]
Step ==
  /\ pc = "run"
  /\ IF i >= Len(sp) THEN pc' = "done" /\ UNCHANGED <<sp, lvl, i, orig>>
     ELSE LET c == PieceOf(sp, i) IN
          IF Flat(c, tol[1], tol[2]) THEN i' = i + 1 /\ UNCHANGED <<sp, lvl, pc, orig>>
          ELSE IF lvl[i] >= D THEN pc' = "toodeep" /\ UNCHANGED <<sp, lvl, i, orig>>
          ELSE LET a == <<sp[i][1], sp[i][2], M1(c)>>                  \* s_p[i-1][2] = one[1]
                   b == <<M3(c), sp[i + 1][2], sp[i + 1][3]>>          \* s_p[i][0]   = two[2]
                   nn == <<M4(c), MM(c), M5(c)>> IN                    \* inserted node
               /\ sp' = SubSeq(sp, 1, i - 1) \o <<a, nn, b>> \o SubSeq(sp, i + 2, Len(sp))
               /\ lvl' = SubSeq(lvl, 1, i - 1) \o <<lvl[i] + 1, lvl[i] + 1>> \o SubSeq(lvl, i + 1, Len(lvl))
               /\ orig' = [k \in DOMAIN orig |-> IF orig[k] > i THEN orig[k] + 1 ELSE orig[k]]
               /\ UNCHANGED <<i, pc>>
  /\ UNCHANGED <<inn, tol>>
Next == Step
Spec == Init /\ [][Next]_vars

SplitsExact == (pc = "run" /\ i < Len(sp) /\ lvl[i] < D) => Splittable(PieceOf(sp, i))
WalkRefinesAbstract == (pc = "done") => JudgeSubdivision(inn, sp, orig, tol[1], tol[2]) = "ok"
WalkTerminates == pc # "toodeep"          \* on these universes D levels always suffice
(* ---- liveness: subdivision terminates (C10: "subdivision terminates") ---- *)
FairSpec == Spec /\ WF_vars(Next)
EventuallyDone == <>(pc = "done")
=============================================================================
