------------------------------ MODULE BezierMC ------------------------------
EXTENDS Bezier
\* squared flatness tn/td in lattice units; 7 divides td exactly once, never tn: tie-free
TolsQuick == {<<3, 7>>, <<3, 28>>}
TolsFull == {<<11, 7>>, <<3, 7>>, <<3, 28>>, <<3, 112>>}
TolsTwo == {<<3, 7>>, <<3, 28>>}
=============================================================================
