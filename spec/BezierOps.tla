----------------------------- MODULE BezierOps -----------------------------
(* C10 - Bezier subdivision (plot_utils.subdivideCubicPath).                   *)
(* Coordinates are lattice integers multiplied by SC = 8^D so that D levels of *)
(* halving (de Casteljau at t = 1/2 divides by 8 overall) stay integral.       *)
(* A node is <<handle_in, point, handle_out>>, each an integer pair; a piece   *)
(* is the four control points <<p0, p1, p2, p3>>.                              *)
(* Flatness uses the C09 distance predicate; its comparison                    *)
(* cross^2 * td < tn' * len^2 reaches 2^60 on scaled coordinates, so it is      *)
(* evaluated in BigInt.                                                         *)
EXTENDS Integers, Sequences, BigInt
CONSTANT D                    \* levels of subdivision the scaling supports
Pow8(n) == 8 ^ n                \* D <= 8 keeps lattice coordinates up to 60 * 8^D inside TLC's 32-bit integers
SC == Pow8(D)

Half(p, q) == <<(p[1] + q[1]) \div 2, (p[2] + q[2]) \div 2>>            \* exact on the scaled lattice
Even(p, q) == (p[1] + q[1]) % 2 = 0 /\ (p[2] + q[2]) % 2 = 0
\* de Casteljau at 1/2
M1(c) == Half(c[1], c[2])   M2(c) == Half(c[2], c[3])   M3(c) == Half(c[3], c[4])
M4(c) == Half(M1(c), M2(c)) M5(c) == Half(M2(c), M3(c)) MM(c) == Half(M4(c), M5(c))
Left(c)  == <<c[1], M1(c), M4(c), MM(c)>>
Right(c) == <<MM(c), M5(c), M3(c), c[4]>>
Splittable(c) ==   \* every halving of this split is exact (true whenever depth < D)
  /\ Even(c[1], c[2]) /\ Even(c[2], c[3]) /\ Even(c[3], c[4])
  /\ Even(M1(c), M2(c)) /\ Even(M2(c), M3(c)) /\ Even(M4(c), M5(c))

(* ---- flatness: both inner control points closer than the tolerance to the chord ---- *)
\* squared tolerance tn/td in LATTICE units; scaled by SC^2 here.  BigInt throughout.
SqB(x) == Mul(FromInt(x), FromInt(x))
D2B(p, q) == Add(SqB(p[1] - q[1]), SqB(p[2] - q[2]))
DotI(p, a, b) == Add(Mul(FromInt(p[1] - a[1]), FromInt(b[1] - a[1])), Mul(FromInt(p[2] - a[2]), FromInt(b[2] - a[2])))
CrossB(p, a, b) == Sub(Mul(FromInt(p[1] - a[1]), FromInt(b[2] - a[2])), Mul(FromInt(b[1] - a[1]), FromInt(p[2] - a[2])))
Tol2B(tn) == Mul(FromInt(tn), Mul(FromInt(SC), FromInt(SC)))            \* numerator of the scaled squared tolerance (over td)
InTolB(p, a, b, tn, td) ==
  LET l2 == D2B(a, b) t == DotI(p, a, b) TD == FromInt(td) IN
  IF l2.s = 0 \/ t.s <= 0 THEN Lt(Mul(D2B(p, a), TD), Tol2B(tn))
  ELSE IF Cmp(t, l2) >= 0 THEN Lt(Mul(D2B(p, b), TD), Tol2B(tn))
  ELSE LET c == CrossB(p, a, b) IN Lt(Mul(Mul(c, c), TD), Mul(Tol2B(tn), l2))
Flat(c, tn, td) == InTolB(c[2], c[1], c[4], tn, td) /\ InTolB(c[3], c[1], c[4], tn, td)

(* ---------------- Abstract: the output traces the same curve ---------------- *)
PieceOf(nodes, k) == <<nodes[k][2], nodes[k][3], nodes[k + 1][1], nodes[k + 1][2]>>
Pieces(nodes, a, b) == [k \in 1..(b - a) |-> PieceOf(nodes, a + k - 1)]      \* pieces between node a and node b
\* 1 = ps is a dyadic subdivision of the curve c (each piece is c restricted to a dyadic interval, in order)
\* 0 = it is not ; 2 = cannot tell within D levels
RECURSIVE Matches(_, _, _)
Matches(c, ps, depth) ==
  IF Len(ps) = 1 THEN (IF ps[1] = c THEN 1 ELSE 0)
  ELSE IF depth >= D \/ ~Splittable(c) THEN 2
  ELSE LET mid == MM(c)
           ks == {k \in 1..(Len(ps) - 1) : ps[k][4] = mid} IN
       IF ks = {} THEN 0
       ELSE LET res == {LET l == Matches(Left(c), SubSeq(ps, 1, k), depth + 1) IN
                         IF l # 1 THEN l ELSE Matches(Right(c), SubSeq(ps, k + 1, Len(ps)), depth + 1) : k \in ks} IN
            IF 1 \in res THEN 1 ELSE IF 2 \in res THEN 2 ELSE 0

\* orig[k] = position in `out` of the k-th input node (the harness finds it by object identity)
JudgeSubdivision(inn, out, orig, tn, td) ==
  LET n == Len(inn) m == Len(out) IN
  IF Len(orig) # n \/ (\E k \in 1..n : orig[k] < 1 \/ orig[k] > m) THEN "bezier.original_nodes_survive_in_order"
  ELSE IF n >= 1 /\ (orig[1] # 1 \/ orig[n] # m) THEN "bezier.original_nodes_survive_in_order"
  ELSE IF \E k \in 1..(n - 1) : orig[k] >= orig[k + 1] THEN "bezier.original_nodes_survive_in_order"
  ELSE IF \E k \in 1..n : out[orig[k]][2] # inn[k][2] THEN "bezier.original_node_moved"
  ELSE IF n >= 1 /\ (out[1][1] # inn[1][1] \/ out[m][3] # inn[n][3]) THEN "bezier.outer_handles_intact"
  ELSE LET res == {Matches(PieceOf(inn, k), Pieces(out, orig[k], orig[k + 1]), 0) : k \in 1..(n - 1)} IN
       IF 0 \in res THEN "bezier.same_curve_dyadic_pieces"
       ELSE IF 2 \in res THEN "skip"
       ELSE IF \E k \in 1..(m - 1) : ~Flat(PieceOf(out, k), tn, td) THEN "bezier.every_piece_flat"
       ELSE "ok"
=============================================================================
