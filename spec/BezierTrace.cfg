SPECIFICATION TSpec
CONSTANTS
  B = 32768
  D = 4
CHECK_DEADLOCK FALSE
