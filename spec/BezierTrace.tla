---------------------------- MODULE BezierTrace ----------------------------
(* V direction for C10 (and judge of G results that differ from the walk):     *)
(* recorded subdivideCubicPath results judged by BezierOps!JudgeSubdivision.   *)
EXTENDS BezierOps, Json, IOUtils, TLC
Trace == ndJsonDeserialize(IOEnv.TRACE_FILE)
VARIABLES i, verdict
Pair(p) == <<p[1], p[2]>>
Nodes(ns) == [k \in 1..Len(ns) |-> <<Pair(ns[k][1]), Pair(ns[k][2]), Pair(ns[k][3])>>]
Judge(e) ==
  IF e.deeper THEN "skip"                                      \* dyadic, but finer than D levels of halving can produce: cannot tell
  ELSE IF ~e.integral THEN "bezier.same_curve_dyadic_pieces"   \* some coordinate is not a dyadic number at all
  ELSE JudgeSubdivision(Nodes(e.inn), Nodes(e.out), e.orig, e.tn, e.td)
TInit == i = 0 /\ verdict = "init"
TNext == i < Len(Trace) /\ i' = i + 1 /\ verdict' = Judge(Trace[i + 1])
TSpec == TInit /\ [][TNext]_<<i, verdict>>
=============================================================================
