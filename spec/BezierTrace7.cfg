SPECIFICATION TSpec
CONSTANTS
  B = 32768
  D = 7
CHECK_DEADLOCK FALSE
