SPECIFICATION FairSpec
CONSTANTS
  B = 32768
  D = 4
  N = 2
  NPieces = 1
  Tols <- TolsQuick
CHECK_DEADLOCK FALSE
PROPERTY EventuallyDone
