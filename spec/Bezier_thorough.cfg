SPECIFICATION Spec
CONSTANTS
  B = 32768
  D = 4
  N = 2
  NPieces = 1
  Tols <- TolsFull
INVARIANT SplitsExact
INVARIANT WalkRefinesAbstract
INVARIANT WalkTerminates
CHECK_DEADLOCK FALSE
