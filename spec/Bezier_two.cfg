SPECIFICATION Spec
CONSTANTS
  B = 32768
  D = 4
  N = 1
  NPieces = 2
  Tols <- TolsTwo
INVARIANT SplitsExact
INVARIANT WalkRefinesAbstract
INVARIANT WalkTerminates
CHECK_DEADLOCK FALSE
