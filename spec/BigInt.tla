------------------------------- MODULE BigInt -------------------------------
(* Arbitrary-size integers for TLC (whose native integers are 32-bit and whose  *)
(* overflow is an evaluation error).  A value is [s |-> -1|0|1, d |-> limbs],    *)
(* little-endian limbs in 0..B-1, no trailing zero limb, s = 0 iff d = <<>> -   *)
(* so equal numbers are equal records.  B*B + 2*B must stay below 2^31.          *)
(* The firmware modulus of the stepper specs is always MOD = 2*B*B (2^31 for    *)
(* B = 2^15, 8 for B = 2), which makes floor-division by it a limb shift.        *)
EXTENDS Integers, Sequences
CONSTANT B

BZero == [s |-> 0, d |-> <<>>]
L(a, i) == IF i <= Len(a) THEN a[i] ELSE 0
MaxI(a, b) == IF a > b THEN a ELSE b

RECURSIVE Trim(_)
Trim(a) == IF a = <<>> THEN a ELSE IF a[Len(a)] = 0 THEN Trim(SubSeq(a, 1, Len(a) - 1)) ELSE a

RECURSIVE MagOfNat(_)
MagOfNat(n) == IF n = 0 THEN <<>> ELSE <<n % B>> \o MagOfNat(n \div B)
FromInt(n) == IF n = 0 THEN BZero ELSE IF n > 0 THEN [s |-> 1, d |-> MagOfNat(n)] ELSE [s |-> -1, d |-> MagOfNat(0 - n)]
Mk(s, d) == LET t == Trim(d) IN IF t = <<>> THEN BZero ELSE [s |-> s, d |-> t]

(* ---- magnitudes ---- *)
RECURSIVE MagCmpFrom(_, _, _)
MagCmpFrom(a, b, i) == IF i = 0 THEN 0 ELSE IF a[i] > b[i] THEN 1 ELSE IF a[i] < b[i] THEN -1 ELSE MagCmpFrom(a, b, i - 1)
MagCmp(a, b) == IF Len(a) > Len(b) THEN 1 ELSE IF Len(a) < Len(b) THEN -1 ELSE MagCmpFrom(a, b, Len(a))

RECURSIVE MagAddFrom(_, _, _, _)
MagAddFrom(a, b, i, c) ==
  IF i > Len(a) /\ i > Len(b) THEN (IF c = 0 THEN <<>> ELSE <<c>>)
  ELSE LET s == L(a, i) + L(b, i) + c IN <<s % B>> \o MagAddFrom(a, b, i + 1, s \div B)
MagAdd(a, b) == MagAddFrom(a, b, 1, 0)

RECURSIVE MagSubFrom(_, _, _, _)          \* requires a >= b
MagSubFrom(a, b, i, c) ==
  IF i > Len(a) THEN <<>>
  ELSE LET s == a[i] - L(b, i) - c IN
       IF s < 0 THEN <<s + B>> \o MagSubFrom(a, b, i + 1, 1) ELSE <<s>> \o MagSubFrom(a, b, i + 1, 0)
MagSub(a, b) == Trim(MagSubFrom(a, b, 1, 0))

RECURSIVE MagMulLimbFrom(_, _, _, _)      \* a * k, 0 <= k < B
MagMulLimbFrom(a, k, i, c) ==
  IF i > Len(a) THEN (IF c = 0 THEN <<>> ELSE <<c>>)
  ELSE LET s == a[i] * k + c IN <<s % B>> \o MagMulLimbFrom(a, k, i + 1, s \div B)
RECURSIVE MagMulFrom(_, _, _)
MagMulFrom(a, b, j) ==                     \* sum over limbs j.. of b, shifted
  IF j > Len(b) THEN <<>>
  ELSE MagAdd(MagMulLimbFrom(a, b[j], 1, 0), <<0>> \o MagMulFrom(a, b, j + 1))
MagMul(a, b) == IF a = <<>> \/ b = <<>> THEN <<>> ELSE Trim(MagMulFrom(a, b, 1))

RECURSIVE MagDivSmallFrom(_, _, _, _)     \* high limb first; returns <<quotient limbs (little-endian), remainder>>; k*B < 2^31
MagDivSmallFrom(a, k, i, r) ==
  IF i = 0 THEN <<<<>>, r>>
  ELSE LET cur == r * B + a[i]
           rest == MagDivSmallFrom(a, k, i - 1, cur % k) IN
       <<rest[1] \o <<cur \div k>>, rest[2]>>
MagDivSmall(a, k) == LET x == MagDivSmallFrom(a, k, Len(a), 0) IN <<Trim(x[1]), x[2]>>

(* ---- signed ---- *)
Neg(x) == [s |-> 0 - x.s, d |-> x.d]
Abs(x) == [s |-> IF x.s = 0 THEN 0 ELSE 1, d |-> x.d]
Cmp(x, y) ==
  IF x.s # y.s THEN (IF x.s > y.s THEN 1 ELSE -1)
  ELSE IF x.s = 0 THEN 0 ELSE x.s * MagCmp(x.d, y.d)
Add(x, y) ==
  IF x.s = 0 THEN y ELSE IF y.s = 0 THEN x
  ELSE IF x.s = y.s THEN [s |-> x.s, d |-> MagAdd(x.d, y.d)]
  ELSE LET c == MagCmp(x.d, y.d) IN
       IF c = 0 THEN BZero ELSE IF c > 0 THEN Mk(x.s, MagSub(x.d, y.d)) ELSE Mk(y.s, MagSub(y.d, x.d))
Sub(x, y) == Add(x, Neg(y))
Mul(x, y) == IF x.s = 0 \/ y.s = 0 THEN BZero ELSE [s |-> x.s * y.s, d |-> MagMul(x.d, y.d)]
Lt(x, y) == Cmp(x, y) < 0
Le(x, y) == Cmp(x, y) <= 0
\* exact division by a small positive k (the caller knows k divides x)
DivExactSmall(x, k) == IF x.s = 0 THEN BZero ELSE Mk(x.s, MagDivSmall(x.d, k)[1])
RemSmall(x, k) == IF x.s = 0 THEN 0 ELSE MagDivSmall(x.d, k)[2]      \* remainder of |x|
\* floor division by a small positive k
FloorDivSmall(x, k) ==
  IF x.s >= 0 THEN (IF x.s = 0 THEN BZero ELSE Mk(1, MagDivSmall(x.d, k)[1]))
  ELSE LET qr == MagDivSmall(x.d, k) IN
       IF qr[2] = 0 THEN Mk(-1, qr[1]) ELSE Mk(-1, MagAdd(qr[1], <<1>>))

(* ---- floor division by MOD = 2*B*B :  x = q*MOD + r, 0 <= r < MOD (r native) ---- *)
MagDivModM(m) ==
  LET low == L(m, 1) + B * L(m, 2)
      hi  == IF Len(m) <= 2 THEN <<>> ELSE SubSeq(m, 3, Len(m))
      qr  == MagDivSmall(hi, 2) IN
  <<qr[1], qr[2] * B * B + low>>
FloorDivModM(x) ==
  IF x.s = 0 THEN [q |-> BZero, r |-> 0]
  ELSE LET qr == MagDivModM(x.d) IN
       IF x.s > 0 THEN [q |-> Mk(1, qr[1]), r |-> qr[2]]
       ELSE IF qr[2] = 0 THEN [q |-> Mk(-1, qr[1]), r |-> 0]
       ELSE [q |-> Mk(-1, MagAdd(qr[1], <<1>>)), r |-> (B * B - qr[2]) + B * B]   \* MOD - rem without forming MOD

(* native value of a BigInt known to fit (|x| < 2^31) *)
RECURSIVE MagToNat(_, _)
MagToNat(d, i) == IF i > Len(d) THEN 0 ELSE d[i] + B * MagToNat(d, i + 1)
ToInt(x) == x.s * MagToNat(x.d, 1)
WellFormed(x) ==
  /\ x.s \in {-1, 0, 1} /\ (x.s = 0 <=> x.d = <<>>)
  /\ \A i \in 1..Len(x.d) : x.d[i] \in 0..(B - 1)
  /\ (x.d # <<>> => x.d[Len(x.d)] # 0)
=============================================================================
