----------------------------- MODULE BigIntTest -----------------------------
(* Self-validation of BigInt at a small limb base against TLC's native ints:  *)
(* every multi-limb carry/borrow path is exercised on numbers small enough to *)
(* be checked natively.                                                        *)
EXTENDS BigInt, TLC
CONSTANT R          \* operands range over -R..R
VARIABLES x, y
MOD == 2 * B * B
Init == x \in (0 - R)..R /\ y \in (0 - R)..R
Next == FALSE /\ UNCHANGED <<x, y>>
Spec == Init /\ [][Next]_<<x, y>>
FloorDiv(a, m) == IF a >= 0 THEN a \div m ELSE 0 - ((0 - a + m - 1) \div m)
Ok ==
  LET X == FromInt(x) Y == FromInt(y) IN
  /\ WellFormed(X) /\ ToInt(X) = x
  /\ Add(X, Y) = FromInt(x + y)
  /\ Sub(X, Y) = FromInt(x - y)
  /\ Mul(X, Y) = FromInt(x * y)
  /\ Cmp(X, Y) = (IF x > y THEN 1 ELSE IF x < y THEN -1 ELSE 0)
  /\ LET fd == FloorDivModM(Mul(X, Y)) IN
       /\ fd.q = FromInt(FloorDiv(x * y, MOD))
       /\ fd.r = x * y - FloorDiv(x * y, MOD) * MOD
  /\ \A k \in {2, 3, 6} :
       /\ FloorDivSmall(Mul(X, Y), k) = FromInt(FloorDiv(x * y, k))
       /\ (((x * y) % k = 0) => DivExactSmall(Mul(X, Y), k) = FromInt(FloorDiv(x * y, k)))
=============================================================================
