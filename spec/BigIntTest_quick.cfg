SPECIFICATION Spec
CONSTANTS
  B = 4
  R = 36
INVARIANT Ok
CHECK_DEADLOCK FALSE
