SPECIFICATION Spec
CONSTANTS
  B = 4
  R = 150
INVARIANT Ok
CHECK_DEADLOCK FALSE
