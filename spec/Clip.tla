-------------------------------- MODULE Clip --------------------------------
(* E1/G machine for C08: every (segment, rectangle) of the lattice is clipped  *)
(* by the impl-shaped Cohen-Sutherland steps; the final state carries the      *)
(* abstract answer too and is a test vector for plot_utils.clip_segment.       *)
EXTENDS ClipOps, TLC
CONSTANTS RLo, RHi,      \* rectangle corners range over RLo..RHi
          SLo, SHi       \* segment end coordinates range over (0-SLo)..SHi
VARIABLES in,            \* <<x1, y1, x2, y2, xmin, ymin, xmax, ymax>>
          a, b,          \* current end points (pairs of rationals)
          iter, pc,      \* clips done; "run" | "accept" | "reject" | "failsafe"
          divzero,       \* a slope with zero denominator was evaluated
          abs            \* the abstract answer (constant along the behaviour)
vars == <<in, a, b, iter, pc, divzero, abs>>
SC == (0 - SLo)..SHi
RC == RLo..RHi
Init ==
  /\ in \in {<<x1, y1, x2, y2, xmin, ymin, xmax, ymax>> : x1 \in SC, y1 \in SC, x2 \in SC, y2 \in SC,
                                                         xmin \in RC, ymin \in RC, xmax \in RC, ymax \in RC}
  /\ in[5] <= in[7] /\ in[6] <= in[8]
  /\ a = <<RI(in[1]), RI(in[2])>> /\ b = <<RI(in[3]), RI(in[4])>>
  /\ iter = 0 /\ pc = "run" /\ divzero = FALSE
  /\ abs = Abstract(in[1], in[2], in[3], in[4], in[5], in[6], in[7], in[8])
C(p) == Code(p[1], p[2], in[5], in[6], in[7], in[8])
Step ==
  /\ pc = "run"
  /\ LET c1 == C(a) c2 == C(b) IN
     IF c1 = 0 /\ c2 = 0 THEN pc' = "accept" /\ UNCHANGED <<a, b, iter, divzero>>
     ELSE IF Shares(c1, c2) THEN pc' = "reject" /\ UNCHANGED <<a, b, iter, divzero>>
     ELSE IF iter > 3 THEN pc' = "failsafe" /\ UNCHANGED <<a, b, iter, divzero>>
     ELSE LET code == IF c1 # 0 THEN c1 ELSE c2 IN
          IF Denominator(a, b, code)[1] = 0
          THEN pc' = "reject" /\ divzero' = TRUE /\ UNCHANGED <<a, b, iter>>
          ELSE LET np == NewPoint(a, b, code, in[5], in[6], in[7], in[8]) IN
               /\ IF code = c1 THEN a' = np /\ b' = b ELSE b' = np /\ a' = a
               /\ iter' = iter + 1 /\ pc' = "run" /\ divzero' = FALSE
  /\ UNCHANGED <<in, abs>>
Next == Step
Spec == Init /\ [][Next]_vars

Done == pc # "run"
NoDivZero == ~divzero
Terminates == iter <= 4 /\ pc # "failsafe"          \* in exact arithmetic the failsafe never decides
AcceptIffNonEmpty == Done => (pc = "accept" <=> abs.cls \in {"accept", "free"})
ResultIsInsidePart == (pc = "accept") => (PEq(a, abs.p[1]) /\ PEq(b, abs.p[2]))     \* orientation kept
(* ---- liveness: "no input makes it loop" - under weak fairness the machine reaches a decision ---- *)
FairSpec == Spec /\ WF_vars(Step)
EventuallyDecides == <>(pc # "run")
=============================================================================
