------------------------------ MODULE ClipOps ------------------------------
(* C08 - segment clipping against an axis-aligned rectangle.                  *)
(* Inputs are INTEGER lattice coordinates (the harness scales them through    *)
(* exact affine maps); intersection points are exact rationals.               *)
(*  Abstract: parametric clipping - the interval [t0,t1] of the segment       *)
(*            P(t) = P1 + t (P2 - P1), t in [0,1], inside the closed rectangle *)
(*  Impl    : Cohen-Sutherland as plot_utils.clip_segment performs it.        *)
EXTENDS Rat, Sequences

(* ---------------- Abstract (Liang-Barsky, exact) ---------------- *)
\* constraints  p*t <= q  for the four boundaries
Cons(x1, y1, x2, y2, xmin, ymin, xmax, ymax) ==
  << <<x1 - x2, x1 - xmin>>, <<x2 - x1, xmax - x1>>, <<y1 - y2, y1 - ymin>>, <<y2 - y1, ymax - y1>> >>
Infeasible(c) == \E k \in 1..4 : c[k][1] = 0 /\ c[k][2] < 0
RECURSIVE T0From(_, _, _)
T0From(c, k, t) == IF k > 4 THEN t ELSE T0From(c, k + 1, IF c[k][1] < 0 THEN RMax(t, R(c[k][2], c[k][1])) ELSE t)
RECURSIVE T1From(_, _, _)
T1From(c, k, t) == IF k > 4 THEN t ELSE T1From(c, k + 1, IF c[k][1] > 0 THEN RMin(t, R(c[k][2], c[k][1])) ELSE t)
PointAt(x1, y1, x2, y2, t) == <<RAdd(RI(x1), RMul(t, RI(x2 - x1))), RAdd(RI(y1), RMul(t, RI(y2 - y1)))>>
\* [cls |-> "accept" | "reject" | "free", p |-> <<P(t0), P(t1)>>]
\*   accept : the inside part has positive length, or the segment is a single point inside
\*   reject : no point of the segment is inside
\*   free   : the inside part is one point of a proper segment (graze, touch): float rounding decides
Inside(x, y, xmin, ymin, xmax, ymax) == xmin <= x /\ x <= xmax /\ ymin <= y /\ y <= ymax
Abstract(x1, y1, x2, y2, xmin, ymin, xmax, ymax) ==
  LET c == Cons(x1, y1, x2, y2, xmin, ymin, xmax, ymax)
      nil == <<<<RI(0), RI(0)>>, <<RI(0), RI(0)>>>> IN
  IF x1 = x2 /\ y1 = y2 THEN
     (IF Inside(x1, y1, xmin, ymin, xmax, ymax) THEN [cls |-> "accept", p |-> <<<<RI(x1), RI(y1)>>, <<RI(x2), RI(y2)>>>>]
      ELSE [cls |-> "reject", p |-> nil])
  ELSE IF Infeasible(c) THEN [cls |-> "reject", p |-> nil]
  ELSE LET t0 == T0From(c, 1, RI(0))
           t1 == T1From(c, 1, RI(1)) IN
       IF RLt(t1, t0) THEN [cls |-> "reject", p |-> nil]
       ELSE [cls |-> IF RLt(t0, t1) THEN "accept" ELSE "free",
             p |-> <<PointAt(x1, y1, x2, y2, t0), PointAt(x1, y1, x2, y2, t1)>>]

(* ---------------- Impl-shaped (Cohen-Sutherland, one boundary per step) ---------------- *)
\* points are pairs of rationals
Code(px, py, xmin, ymin, xmax, ymax) ==
  (IF RLt(px, RI(xmin)) THEN 1 ELSE 0) + (IF RLt(RI(xmax), px) THEN 2 ELSE 0)
  + (IF RLt(py, RI(ymin)) THEN 4 ELSE 0) + (IF RLt(RI(ymax), py) THEN 8 ELSE 0)
Bit(c, b) == (c \div b) % 2 = 1
Shares(c1, c2) == \E b \in {1, 2, 4, 8} : Bit(c1, b) /\ Bit(c2, b)
\* the denominator the code divides by when clipping `code`
Denominator(a, b, code) == IF Bit(code, 1) \/ Bit(code, 2) THEN RSub(b[1], a[1]) ELSE RSub(b[2], a[2])
NewPoint(a, b, code, xmin, ymin, xmax, ymax) ==
  IF Bit(code, 1) THEN <<RI(xmin), RAdd(RMul(RDiv(RSub(b[2], a[2]), RSub(b[1], a[1])), RSub(RI(xmin), a[1])), a[2])>>
  ELSE IF Bit(code, 2) THEN <<RI(xmax), RAdd(RMul(RDiv(RSub(b[2], a[2]), RSub(b[1], a[1])), RSub(RI(xmax), a[1])), a[2])>>
  ELSE IF Bit(code, 4) THEN <<RAdd(RMul(RDiv(RSub(b[1], a[1]), RSub(b[2], a[2])), RSub(RI(ymin), a[2])), a[1]), RI(ymin)>>
  ELSE <<RAdd(RMul(RDiv(RSub(b[1], a[1]), RSub(b[2], a[2])), RSub(RI(ymax), a[2])), a[1]), RI(ymax)>>
PEq(p, q) == REq(p[1], q[1]) /\ REq(p[2], q[2])
=============================================================================
