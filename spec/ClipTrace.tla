----------------------------- MODULE ClipTrace -----------------------------
(* V direction for C08: for each recorded call TLC computes the abstract       *)
(* answer (class + exact end points of the inside part); the harness compares  *)
(* the recorded floats with those exact values within the stated tolerance.    *)
EXTENDS ClipOps, Json, IOUtils, TLC
Trace == ndJsonDeserialize(IOEnv.TRACE_FILE)
VARIABLES i, verdict
Judge(e) ==
  IF ~(e.xmin <= e.xmax /\ e.ymin <= e.ymax) THEN [cls |-> "skip", p |-> <<>>]
  ELSE Abstract(e.x1, e.y1, e.x2, e.y2, e.xmin, e.ymin, e.xmax, e.ymax)
TInit == i = 0 /\ verdict = [cls |-> "init", p |-> <<>>]
TNext == i < Len(Trace) /\ i' = i + 1 /\ verdict' = Judge(Trace[i + 1])
TSpec == TInit /\ [][TNext]_<<i, verdict>>
=============================================================================
