SPECIFICATION FairSpec
CONSTANTS
  RLo = 0
  RHi = 2
  SLo = 1
  SHi = 3
CHECK_DEADLOCK FALSE
PROPERTY EventuallyDecides
