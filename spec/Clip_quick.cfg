SPECIFICATION Spec
CONSTANTS
  RLo = 0
  RHi = 2
  SLo = 1
  SHi = 3
INVARIANT NoDivZero
INVARIANT Terminates
INVARIANT AcceptIffNonEmpty
INVARIANT ResultIsInsidePart
CHECK_DEADLOCK FALSE
