SPECIFICATION Spec
CONSTANTS
  RLo = 0
  RHi = 3
  SLo = 1
  SHi = 4
INVARIANT NoDivZero
INVARIANT Terminates
INVARIANT AcceptIffNonEmpty
INVARIANT ResultIsInsidePart
CHECK_DEADLOCK FALSE
