-------------------------------- MODULE Cmds --------------------------------
(* E1/G machine for C06: every helper x argument tuple of the universe with    *)
(* the documented command lines it must transmit (one state per request).      *)
EXTENDS EBBCmds
CONSTANTS Ints, Opts, PauseMax
VARIABLES h, a, lines
vars == <<h, a, lines>>
T1(S1) == {<<x>> : x \in S1}
T2(S1, S2) == {<<x, y>> : x \in S1, y \in S2}
T3(S1, S2, S3) == {<<x, y, z>> : x \in S1, y \in S2, z \in S3}
Small == {-1, 0, 1, 3}
Res == (-1)..6
ArgSets(hh) ==
  CASE hh \in {"ab_move", "xy_move"} -> T3(Ints, Ints, Ints)
    [] hh = "timed_pause" -> T1((0..PauseMax) \cup {-5, 10000, 1000000})
    [] hh = "lowlevel_move" -> {<<r1, s1, a1, r2, s2, a2, c>> : r1 \in {0, 1, -5, -2}, s1 \in {0, 1, -1}, a1 \in {0, 2},           \* incl. accel = -rate (an axis that moves, then stops)
                                                               r2 \in {0, 7, 1}, s2 \in {0, 3}, a2 \in {0, -1}, c \in Opts}
    [] hh = "abs_move" -> T3({0, 1, 5000}, Opts \cup {-7}, Opts \cup {250})
    [] hh \in {"pen_lower", "pen_raise"} -> T2({0, 1, 750, 65535}, Opts \cup {2, 7})
    [] hh = "servo_timeout" -> T2({0, 1, 60000}, Opts)
    [] hh = "motors_enable_both" -> T1(Res \cup {-5, 750})
    [] hh = "motors_enable" -> {<<r1, r2, q1, q2>> \in {<<r1, r2, q1, q2>> : r1 \in Res, r2 \in Res, q1 \in 0..5, q2 \in 0..5} : q1 = q2 \/ q1 * q2 = 0}   \* one global resolution: QE never reports two different non-zero modes
    [] hh \in {"pb_config_out", "pb_set"} -> T2(0..7, {0, 1})
    [] hh = "dio_b_config" -> T3({0, 1, 3, 7}, {0, 1}, {0, 1})
    [] hh = "dio_b_read" -> T1(0..7)
    [] hh \in {"pen_pos_down", "pen_pos_up", "pen_rate_down", "pen_rate_up", "set_layer"} -> T1(Ints)
    [] hh = "var_write" -> T2({0, 1, 255}, {0, 1, 31})
    [] hh = "var_read" -> T1({0, 1, 28, 31})
    [] hh = "var_write_int32" -> T2({0, 1, -1, 255, 256, 65535, 16777216, -16777216, 16909060, -16909060, 2147483647, -2147483647, (0 - 2147483647) - 1}, {0, 1, 27, 28})
    [] hh = "var_read_int32" -> T1({0, 1, 28})
    [] OTHER -> {<<>>}
AllHelpers == Helpers \cup {"motors_enable"}
Init == /\ h \in AllHelpers /\ a \in ArgSets(h)
        /\ lines = IF h = "motors_enable" THEN MotorsEnableLines(a[1], a[2], <<a[3], a[4]>>) ELSE Lines(h, a)
Next == FALSE /\ UNCHANGED vars
Spec == Init /\ [][Next]_vars

PauseOK == (h = "timed_pause") =>
  LET c == PauseChunks(a[1]) IN
  /\ \A k \in 1..Len(c) : c[k] >= 1 /\ c[k] <= 750
  /\ SumSeq(c) = (IF a[1] > 0 THEN a[1] ELSE 0)
  /\ Len(lines) = Len(c)
LowLevelSuppressedOnlyWhenIdle == (h = "lowlevel_move") =>
  ((lines = <<>>) <=> (AxisIdle(a[1], a[2], a[3]) /\ AxisIdle(a[4], a[5], a[6])))
NothingElse ==      \* one line per documented command; helpers with two commands send exactly two
  /\ (h \in {"pb_config_out", "dio_b_config"} => Len(lines) = 2)
  /\ (h \in {"var_write_int32", "var_read_int32"} => Len(lines) = 4)
  /\ (h = "motors_enable" => Len(lines) \in 1..4)
  /\ (h = "query_motors_pins" => Len(lines) = 5)
  /\ (h \notin {"pb_config_out", "dio_b_config", "var_write_int32", "var_read_int32", "motors_enable", "timed_pause", "lowlevel_move", "query_motors_pins"} => Len(lines) = 1)
FinalEMClamped == (h = "motors_enable") =>
  lines[Len(lines)] = "EM," \o S(Clamp05(a[1])) \o "," \o S(Clamp05(a[2]))
=============================================================================
