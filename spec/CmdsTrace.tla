----------------------------- MODULE CmdsTrace -----------------------------
(* Code -> spec for the two helpers of C06 whose documented text leaves the    *)
(* implementation a choice: a timed pause may be cut into ANY zero-move        *)
(* commands of 1..750 ms that sum to n, and motors_enable may prepare the      *)
(* single-motor case with the documented preparation commands in more than one *)
(* way.  Observed command lists that differ from the table's (greedy /        *)
(* query-first) rendering are judged here by the statement itself.             *)
EXTENDS EBBCmds, Json, IOUtils
Trace == ndJsonDeserialize(IOEnv.TRACE_FILE)
VARIABLES i, verdict
Sq(x) == [k \in 1..Len(x) |-> x[k]]
PauseObservedOK(n, ds, wf) ==
  /\ wf                                                   \* every line lexed as SM,<d>,0,0 followed by one CR
  /\ \A k \in 1..Len(ds) : ds[k] >= 1 /\ ds[k] <= 750
  /\ SumSeq(ds) = (IF n > 0 THEN n ELSE 0)
MotorsObservedOK(r1, r2, ls) ==
  LET c1 == Clamp05(r1) c2 == Clamp05(r2)
      one == (c1 # c2) /\ (c1 * c2 = 0)
      only2 == c1 = 0 /\ c2 # 0
      final == "EM," \o S(c1) \o "," \o S(c2)
      Allowed(l) == (one /\ l = "CU,50,0") \/ (only2 /\ l \in {"QE", "EM," \o S(c2) \o "," \o S(c2)}) IN
  /\ Len(ls) >= 1 /\ ls[Len(ls)] = final
  /\ \A k \in 1..(Len(ls) - 1) : Allowed(ls[k])
Judge(e) ==
  IF e.h = "timed_pause" THEN (IF PauseObservedOK(e.n, Sq(e.ds), e.wf) THEN "ok" ELSE "text.pause_chunks_1_750_sum_n")
  ELSE IF e.h = "motors_enable" THEN (IF MotorsObservedOK(e.r1, e.r2, Sq(e.lines)) THEN "ok" ELSE "text.motors_enable_clamped_final_em_and_nothing_else")
  ELSE "badevent"
TInit == i = 0 /\ verdict = "init"
TNext == i < Len(Trace) /\ i' = i + 1 /\ verdict' = Judge(Trace[i + 1])
TSpec == TInit /\ [][TNext]_<<i, verdict>>
=============================================================================
