----------------------------- MODULE CmdsTrace -----------------------------
(* Code -> spec for the helper of C06 whose statement leaves the               *)
(* implementation a choice: a timed pause may be cut into ANY zero-move        *)
(* commands of 1..750 ms that sum to n.  An observed command list that differs *)
(* from the table's greedy rendering is judged here by the statement itself.   *)
(* (motors_enable is NOT free: "and nothing else" - a preparation command that *)
(* is not needed, e.g. re-setting a scale already in use, energises motor 1    *)
(* for a moment and is a different request; seed C06_1.)                       *)
EXTENDS EBBCmds, Json, IOUtils
Trace == ndJsonDeserialize(IOEnv.TRACE_FILE)
VARIABLES i, verdict
Sq(x) == [k \in 1..Len(x) |-> x[k]]
PauseObservedOK(n, ds, wf) ==
  /\ wf                                                   \* every line lexed as SM,<d>,0,0 followed by one CR
  /\ \A k \in 1..Len(ds) : ds[k] >= 1 /\ ds[k] <= 750
  /\ SumSeq(ds) = (IF n > 0 THEN n ELSE 0)
Judge(e) ==
  IF e.h = "timed_pause" THEN (IF PauseObservedOK(e.n, Sq(e.ds), e.wf) THEN "ok" ELSE "text.pause_chunks_1_750_sum_n")
  ELSE "badevent"
TInit == i = 0 /\ verdict = "init"
TNext == i < Len(Trace) /\ i' = i + 1 /\ verdict' = Judge(Trace[i + 1])
TSpec == TInit /\ [][TNext]_<<i, verdict>>
=============================================================================
