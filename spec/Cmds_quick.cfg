SPECIFICATION Spec
CONSTANTS
  Ints <- IntsQ
  Opts <- OptsAll
  PauseMax = 1600
INVARIANT PauseOK
INVARIANT LowLevelSuppressedOnlyWhenIdle
INVARIANT NothingElse
INVARIANT FinalEMClamped
CHECK_DEADLOCK FALSE
