SPECIFICATION Spec
CONSTANTS
  Ints <- IntsT
  Opts <- OptsAll
  PauseMax = 2300
INVARIANT PauseOK
INVARIANT LowLevelSuppressedOnlyWhenIdle
INVARIANT NothingElse
INVARIANT FinalEMClamped
CHECK_DEADLOCK FALSE
