------------------------------ MODULE Discovery ------------------------------
(* Enumerator for C19: every list of <= MaxPorts abstract ports (descriptor     *)
(* template x board name); the harness renders each to concrete OS-style        *)
(* strings, runs both layers and sends the result back to DiscoveryTrace.       *)
(* The abstract invariants here are about the catalogue itself.                 *)
EXTENDS Integers, Sequences, TLC
CONSTANTS Templates, Names, MaxPorts
\* template facts the abstract clauses depend on (kept in step with the harness catalogue by a self-test)
DescIsEBB == {"mac_named", "unnamed", "desc_only"}
IdIsEBB == {"mac_named", "unnamed", "win_ser", "win_snr", "vidpid_only", "win_ser_end"}
VARIABLES ports, phase
vars == <<ports, phase>>
Init == ports = <<>> /\ phase = "add"
Add == /\ phase = "add" /\ Len(ports) < MaxPorts
       /\ \E t \in Templates, nm \in Names : ports' = Append(ports, [t |-> t, nm |-> nm])
       /\ UNCHANGED phase
Done == phase = "add" /\ phase' = "done" /\ UNCHANGED ports
Next == Add \/ Done
Spec == Init /\ [][Next]_vars
IsEBB(p) == p.t \in DescIsEBB \/ p.t \in IdIsEBB
\* abstract first board / listing at template level, carried in the dump for the harness self-test
AbsFirst == IF \E i \in 1..Len(ports) : ports[i].t \in DescIsEBB
            THEN CHOOSE i \in 1..Len(ports) : ports[i].t \in DescIsEBB /\ \A j \in 1..(i - 1) : ports[j].t \notin DescIsEBB
            ELSE IF \E i \in 1..Len(ports) : ports[i].t \in IdIsEBB
            THEN CHOOSE i \in 1..Len(ports) : ports[i].t \in IdIsEBB /\ \A j \in 1..(i - 1) : ports[j].t \notin IdIsEBB
            ELSE 0
FirstIsListed == (phase = "done" /\ AbsFirst # 0) => IsEBB(ports[AbsFirst])
ByDescWins == (phase = "done" /\ AbsFirst # 0 /\ ports[AbsFirst].t \notin DescIsEBB) => \A i \in 1..Len(ports) : ports[i].t \notin DescIsEBB
=============================================================================
