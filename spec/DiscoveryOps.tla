---------------------------- MODULE DiscoveryOps ----------------------------
(* C19 - port discovery (ebb_serial.findPort / listEBBports / list_named_ebbs /  *)
(* find_named_ebb and the EBB3 counterparts).  Text is a sequence of character   *)
(* codes (TLC strings cannot be indexed).  A port is <<device, description,      *)
(* hardware id>>.  Indices are 1-based positions in the enumeration; 0 = None.   *)
EXTENDS Integers, Sequences, FiniteSets
\* literal strings, as codes (generated)
S_EIBOT == <<69, 105, 66, 111, 116, 66, 111, 97, 114, 100>>          \* "EiBotBoard"
S_VIDPID == <<85, 83, 66, 32, 86, 73, 68, 58, 80, 73, 68, 61, 48, 52, 68, 56, 58, 70, 68, 57, 50>>        \* "USB VID:PID=04D8:FD92"
S_SER == <<115, 101, 114, 61>>              \* "ser="
S_SNR == <<115, 110, 114, 61>>              \* "snr="
S_SNR_UP == <<83, 78, 82, 61>>         \* "SNR="
LowerC(c) == IF (c >= 65 /\ c <= 90) \/ (c >= 192 /\ c <= 222 /\ c # 215) THEN c + 32 ELSE c        \* ASCII and Latin-1 letters (what the harness' names use)
Lower(s) == [k \in 1..Len(s) |-> LowerC(s[k])]
StartsWith(t, p) == Len(t) >= Len(p) /\ \A k \in 1..Len(p) : t[k] = p[k]
MatchAt(t, p, i) == \A k \in 1..Len(p) : t[i + k - 1] = p[k]
Contains(t, p) == \E i \in 1..(Len(t) - Len(p) + 1) : MatchAt(t, p, i)
From(s, k) == IF k > Len(s) THEN <<>> ELSE SubSeq(s, k, Len(s))           \* s[k-1:] in Python terms
Dev(p) == p[1]  Desc(p) == p[2]  Hwid(p) == p[3]

(* ---------------- Abstract ---------------- *)
IsByDesc(p) == StartsWith(Desc(p), S_EIBOT)
IsById(p) == StartsWith(Hwid(p), S_VIDPID)
FirstIdx(ports, T(_)) == IF \E i \in 1..Len(ports) : T(ports[i]) THEN CHOOSE i \in 1..Len(ports) : T(ports[i]) /\ \A j \in 1..(i - 1) : ~T(ports[j]) ELSE 0
FirstBoard(ports) == IF FirstIdx(ports, IsByDesc) # 0 THEN FirstIdx(ports, IsByDesc) ELSE FirstIdx(ports, IsById)
Listing(ports) == SelectSeq([i \in 1..Len(ports) |-> i], LAMBDA i : IsByDesc(ports[i]) \/ IsById(ports[i]))
\* "an earlier port also matches", in the weakest reading that is still about a NAME, a TAG or a PORT NAME: its device string or its
\* hardware id contains the needle anywhere, or its description does so as a board's description can carry a name - after the product
\* name (the description starts with it, or the needle follows the 11-character "EiBotBoard," prefix position) or in parentheses
\* ("(COM4)").  A foreign device whose description merely begins with, or mentions, the needle has neither name nor tag nor port
\* name equal to it (seed C19_9: "AxiDraw Bridge UART" enumerated before the board named AxiDraw).
ParenNeedle(nl) == <<40>> \o nl \o <<41>>
DescMentions(d, nl) == (StartsWith(d, Lower(S_EIBOT)) /\ Contains(d, nl)) \/ Contains(d, ParenNeedle(nl)) \/ StartsWith(From(d, 12), nl)
Mentions(p, needleLower) == Contains(Lower(Dev(p)), needleLower) \/ DescMentions(Lower(Desc(p)), needleLower) \/ Contains(Lower(Hwid(p)), needleLower)
\* own lookup of board k by needle: must return k unless an earlier port mentions the needle
OwnLookupOK(ports, needle, k, r) == (\A j \in 1..(k - 1) : ~Mentions(ports[j], Lower(needle))) => r = k
HasSNR(ports) == \E i \in 1..Len(ports) : Contains(Hwid(ports[i]), S_SNR_UP)

(* ---------------- Impl-shaped: the two matchers as coded ---------------- *)
LegacyHit(p, nl) ==
  LET p0 == Lower(Dev(p)) p1 == Lower(Desc(p)) p2 == Lower(Hwid(p)) IN
  \/ Contains(p2, S_SER \o nl) \/ Contains(p2, S_SNR \o nl) \/ Contains(p1, ParenNeedle(nl))
  \/ StartsWith(From(p1, 12), nl) \/ StartsWith(p0, nl)
E3Hit(p, nl) ==
  LET p0 == Lower(Dev(p)) p1 == Lower(Desc(p)) p2 == Lower(Hwid(p)) IN
  \/ Contains(p2, S_SER \o nl) \/ Contains(p1, ParenNeedle(nl))
  \/ StartsWith(From(p1, 12), nl) \/ StartsWith(p0, nl)
LegacyFind(ports, needle) == LET H(p) == LegacyHit(p, Lower(needle)) IN FirstIdx(ports, H)
E3Find(ports, needle) == LET H(p) == E3Hit(p, Lower(needle)) IN FirstIdx(ports, H)
=============================================================================
