--------------------------- MODULE DiscoveryTrace ---------------------------
(* Code -> spec for C19: one event per enumerated port list with everything    *)
(* both layers answered for it; judged clause by clause.                       *)
EXTENDS DiscoveryOps, Json, IOUtils, TLC
Trace == ndJsonDeserialize(IOEnv.TRACE_FILE)
VARIABLES i, verdict
Sq(x) == [k \in 1..Len(x) |-> x[k]]
Ports(e) == [k \in 1..Len(e.ports) |-> <<Sq(e.ports[k][1]), Sq(e.ports[k][2]), Sq(e.ports[k][3])>>]
RECURSIVE JudgeLookups(_, _, _, _)
JudgeLookups(ps, ls, k, agree) ==
  IF k > Len(ls) THEN "ok"
  ELSE LET l == ls[k] nd == Sq(l.needle) IN
       IF l.leg < 0 \/ l.leg > Len(ps) THEN "lookup.legacy_returns_port_not_in_list@" \o ToString(k)
       ELSE IF l.e3 < 0 \/ l.e3 > Len(ps) THEN "lookup.ebb3_returns_port_not_in_list@" \o ToString(k)
       ELSE IF l.k > 0 /\ l.cl /\ ~OwnLookupOK(ps, nd, l.k, l.leg) THEN "lookup.legacy_finds_own_" \o l.kind \o "@" \o ToString(k)
       ELSE IF l.k > 0 /\ l.ce /\ ~OwnLookupOK(ps, nd, l.k, l.e3) THEN "lookup.ebb3_finds_own_" \o l.kind \o "@" \o ToString(k)
       ELSE IF agree /\ l.leg # l.e3 THEN "layers.lookup_agree@" \o ToString(k)
       ELSE JudgeLookups(ps, ls, k + 1, agree)
Judge(e) ==
  LET ps == Ports(e) fb == FirstBoard(ps) li == Listing(ps) agree == ~HasSNR(ps) IN
  IF e.first_legacy # fb THEN "first.legacy"
  ELSE IF e.first_ebb3 # fb THEN "first.ebb3"
  ELSE IF Sq(e.list_legacy) # li THEN "listing.legacy"
  ELSE IF Sq(e.list_ebb3) # li THEN "listing.ebb3"
  \* the names the two layers report for the listed boards: one per listed board, and the same in both layers (SNR= is the legacy layer's extra)
  ELSE IF li # <<>> /\ (Len(e.names[1]) # Len(li) \/ Len(e.names[2]) # Len(li)) THEN "names.one_per_listed_board"
  ELSE IF agree /\ \E k \in 1..Len(e.names[1]) : Sq(e.names[1][k]) # Sq(e.names[2][k]) THEN "layers.names_agree"
  ELSE JudgeLookups(ps, e.lookups, 1, agree)
\* how far the real matchers are from the transcription (reported as DRIFT, never a verdict)
Drift(e) == LET ps == Ports(e) IN
  Cardinality({k \in 1..Len(e.lookups) : e.lookups[k].leg # LegacyFind(ps, Sq(e.lookups[k].needle)) \/ e.lookups[k].e3 # E3Find(ps, Sq(e.lookups[k].needle))})
TInit == i = 0 /\ verdict = <<"init", 0>>
TNext == i < Len(Trace) /\ i' = i + 1 /\ verdict' = <<Judge(Trace[i + 1]), Drift(Trace[i + 1])>>
TSpec == TInit /\ [][TNext]_<<i, verdict>>
=============================================================================
