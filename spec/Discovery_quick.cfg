SPECIFICATION Spec
CONSTANTS
  Templates = {"mac_named", "unnamed", "win_ser", "win_snr", "vidpid_only", "foreign", "foreign_mentions", "bluetooth"}
  Names = {"Lab", "LabX2", "East Wing", "Q7"}
  MaxPorts = 2
INVARIANT FirstIsListed
INVARIANT ByDescWins
CHECK_DEADLOCK FALSE
