SPECIFICATION Spec
CONSTANTS
  Templates = {"mac_named", "unnamed", "win_ser", "win_snr", "vidpid_only", "foreign", "foreign_mentions", "bluetooth", "name_not_initial", "other_product", "id_not_initial", "name_in_hwid", "id_in_desc", "desc_only", "foreign_name_initial", "win_ser_end"}
  Names = {"Lab", "LabX2", "East Wing", "Q7"}
  MaxPorts = 3
INVARIANT FirstIsListed
INVARIANT ByDescWins
CHECK_DEADLOCK FALSE
