------------------------------- MODULE EBB3Abs -------------------------------
(* The one-paragraph abstraction of an EBB3 connection object that C04 and C05  *)
(* talk about: REQUEST / RESPONSE WITH A LATCHED FIRST ERROR.                   *)
(*   - a call is either answered from a dead object (error latched or no port): *)
(*     nothing is transmitted, the failure value comes back, nothing changes;   *)
(*   - or it transmits request lines one at a time until it is done or one of   *)
(*     them fails; the first failure latches the error and ends transmission.   *)
(* EBB3Link (the impl-shaped machine, one action per critical section of the    *)
(* code) is checked by TLC to IMPLEMENT this specification under the refinement *)
(* mapping given in EBB3Refine.tla.                                             *)
EXTENDS Integers, Sequences
VARIABLES aOpen,      \* the port is open
          aErr,       \* <<0,"none">> or the identity of the latched error
          aBusy,      \* a call is in progress
          aDeadEntry, \* the object was dead when the current call began
          aSpecial,   \* the current call is connect / disconnect / record_error
          aWire       \* lines transmitted during the current call
avars == <<aOpen, aErr, aBusy, aDeadEntry, aSpecial, aWire>>
ANoErr == <<0, "none">>
ADead == ~aOpen \/ aErr # ANoErr

AInit == aOpen \in BOOLEAN /\ aErr = ANoErr /\ aBusy = FALSE /\ aDeadEntry = FALSE /\ aSpecial = FALSE /\ aWire = <<>>
ABegin == /\ ~aBusy /\ aBusy' = TRUE /\ aDeadEntry' = ADead /\ aSpecial' \in BOOLEAN /\ aWire' = <<>>
          /\ UNCHANGED <<aOpen, aErr>>
\* a request line goes out: only from a live object, or inside the handshake of connect()
ASend == /\ aBusy /\ (aSpecial \/ ~ADead)
         /\ Len(aWire') = Len(aWire) + 1 /\ SubSeq(aWire', 1, Len(aWire)) = aWire
         /\ UNCHANGED <<aOpen, aErr, aBusy, aDeadEntry, aSpecial>>
\* the first failure is latched; a later one changes nothing
ALatch == /\ aBusy /\ aErr = ANoErr /\ aErr' # ANoErr
          /\ UNCHANGED <<aOpen, aBusy, aDeadEntry, aSpecial, aWire>>
\* the port opens (connect) or closes (disconnect, reboot, bootload, a failed handshake)
APort == /\ aBusy /\ aOpen' # aOpen /\ UNCHANGED <<aErr, aBusy, aDeadEntry, aSpecial, aWire>>
APortSend ==    \* connect's successful handshake: the port opens and the probes are on the wire, one step
  /\ aBusy /\ aSpecial /\ ~aOpen /\ aOpen' /\ Len(aWire') > Len(aWire) /\ UNCHANGED <<aErr, aBusy, aDeadEntry, aSpecial>>
AFailedHandshake ==  \* connect's failed handshake: probes on the wire, error latched (if none yet), port stays/gets closed
  /\ aBusy /\ aSpecial /\ ~aOpen /\ ~aOpen' /\ (aErr = ANoErr => aErr' # ANoErr) /\ (aErr # ANoErr => aErr' = aErr)
  /\ Len(aWire') >= Len(aWire) /\ UNCHANGED <<aBusy, aDeadEntry, aSpecial>>
AEnd == /\ aBusy /\ aBusy' = FALSE
        /\ (aDeadEntry /\ ~aSpecial => aWire = <<>>)          \* the call of a dead object transmitted nothing
        /\ UNCHANGED <<aOpen, aErr, aDeadEntry, aSpecial, aWire>>
ANext == ABegin \/ ASend \/ ALatch \/ APort \/ APortSend \/ AFailedHandshake \/ AEnd
ASpec == AInit /\ [][ANext]_avars
\* what the abstraction guarantees by itself
ALatched == [][aErr # ANoErr => aErr' = aErr]_avars
ASilent == (aBusy /\ aDeadEntry /\ ~aSpecial) => aWire = <<>>
=============================================================================
