------------------------------ MODULE EBB3Link ------------------------------
(* Impl-shaped model of one EBB3 / EBBMotionWrap connection object, the serial *)
(* port under it, the environment's faults, and the board (device) behind it.  *)
(* One action per critical section of the code: the method's entry guard, each *)
(* primitive's guard, the write, the read (a burst of empty reads then a line   *)
(* or an exception), the validation that records the error, the return.        *)
(* Methods are DATA: a program of primitive requests                            *)
(*    cmd = EBB3.command(), qry = EBB3.query(), raw = unguarded write           *)
(*    (reboot / bootload), poll = the status-byte primitive (one read, no retry)*)
(* interpreted by one executor.  Used by C04 (latch + silence), C05 (framing    *)
(* and fault handling), C15 (connect / version gate), C16 (board round trips).  *)
EXTENDS EBB3Ops
CONSTANTS Calls,        \* the call alphabet: set of [m |-> method, a |-> <<ints>>, s |-> string]
          MaxCalls, MaxFaults,
          RetryMax,     \* 25 in the code
          Bursts,       \* offered numbers of empty reads before a line
          Devices,      \* device kinds offered to connect()
          InitBoards,   \* initial board states
          StartConnected, \* BOOLEAN: begin with an open, verified port (skip the handshake)
          MinVer,       \* minimum supported firmware <<a, b, c>>
          MaxReplug,    \* how often the environment may swap the device (only while the port is closed)
          FixStatus, FixNick, FixQC, FixConnect, FixStale    \* TRUE = the repaired code; FALSE = the pinned behaviour (self-tests)

(* ---------------- state ---------------- *)
VARIABLES port,           \* "open" | "none"
          err,            \* NoErr or <<call number, kind>> : the identity of the recorded message
          name,           \* the object's cached nickname ("" = None)
          board, dev,     \* device state; kind of the device currently on the bus (the environment may replace it while the port is closed)
          ver,            \* what the object remembers of the last identification: "none" | "old" | "ok"
          replugs,
          ncalls, nfaults,
          call, prog, pc, \* current call, its remaining steps, control point
          deadAtEntry,    \* was the object dead when this call began
          empties,        \* empty reads seen by the current primitive
          rep,            \* last line read by the current primitive: [kind, r]
          failed,         \* did a primitive of this call fail
          wr, got, ret,   \* per-call observables: lines written, successful query replies, return value
          errAtEntry,
          hist            \* the script: one record per call with the environment's choices (for replay)
vars == <<port, err, name, board, dev, ver, replugs, ncalls, nfaults, call, prog, pc, deadAtEntry, empties, rep, failed, wr, got, ret, errAtEntry, hist>>
core == <<port, err, name, board, dev, ver, replugs, ncalls, nfaults, call, prog, pc, deadAtEntry, empties, rep, failed, wr, got, ret, errAtEntry>>

NoCall == [m |-> "none", a |-> <<>>, s |-> ""]
NoRep == [kind |-> "none", r |-> NoReply]
Dead == port = "none" \/ err # NoErr
RecordError(kind) == err' = IF err = NoErr THEN <<ncalls, kind>> ELSE err       \* the only writer of err
Env(e) == hist' = [hist EXCEPT ![Len(hist)].env = Append(@, e)]                   \* log an environment choice

Supported(d) == SupportedDev(d, MinVer)            \* the numeric version gate
Init ==
  /\ dev \in Devices /\ board \in InitBoards /\ replugs = 0
  /\ ver = IF StartConnected THEN "ok" ELSE "none"
  /\ port = IF StartConnected THEN "open" ELSE "none"
  /\ (StartConnected => Supported(dev))
  /\ err = NoErr /\ name = "" /\ ncalls = 0 /\ nfaults = 0
  /\ call = NoCall /\ prog = <<>> /\ pc = "idle" /\ deadAtEntry = FALSE /\ empties = 0 /\ rep = NoRep /\ failed = FALSE
  /\ wr = <<>> /\ got = <<>> /\ ret = Void /\ errAtEntry = NoErr /\ hist = <<>>

BeginCall(c) ==
  /\ pc = "idle" /\ ncalls < MaxCalls
  /\ ncalls' = ncalls + 1 /\ call' = c /\ prog' = Program(c)
  /\ deadAtEntry' = Dead /\ errAtEntry' = err
  /\ wr' = <<>> /\ got' = <<>> /\ ret' = Void /\ failed' = FALSE /\ empties' = 0 /\ rep' = NoRep
  /\ hist' = Append(hist, [m |-> c.m, a |-> c.a, s |-> c.s, env |-> <<>>, obs |-> <<>>, dv |-> dev,
                            b0 |-> [nick |-> board.nick, m1 |-> board.m1, m2 |-> board.m2, res |-> board.res, volt |-> board.volt]])
  /\ pc' = CASE c.m = "connect" -> "connect" [] c.m = "disconnect" -> "disconnect" [] c.m = "record_error" -> "recerr" [] OTHER -> "entry"
  /\ UNCHANGED <<port, err, name, board, dev, ver, replugs, nfaults>>

\* the method's own entry guard (every request method has one): dead => fail value, nothing else happens
Entry ==
  /\ pc = "entry"
  /\ IF Dead
     THEN /\ pc' = "ret" /\ failed' = TRUE
          /\ ret' = IF call.m = "var_read_int32" THEN <<"bool", FALSE>> ELSE CHOOSE v \in FailSet(call.m) : TRUE
     ELSE pc' = "step" /\ UNCHANGED <<failed, ret>>
  /\ UNCHANGED <<port, err, name, board, dev, ver, replugs, ncalls, nfaults, call, prog, deadAtEntry, empties, rep, wr, got, errAtEntry, hist>>

\* dispatch the next primitive: its guard is the guard at the top of command() / query()
Step ==
  /\ pc = "step"
  /\ IF prog = <<>> THEN pc' = "finish" /\ UNCHANGED <<prog, failed, empties, rep>>
     ELSE LET st == Head(prog) IN
          IF st.k = "qeb" THEN      \* motors_enable: the preliminary EM,r2,r2 only if the scale in use differs
               LET qe == got[Len(got)].vals
                   r1 == CodeRes(qe[1]) r2 == CodeRes(qe[2])
                   old == IF r1 # 0 THEN r1 ELSE IF r2 # 0 THEN r2 ELSE 0 IN
               IF old # st.v[1] THEN prog' = <<[st EXCEPT !.k = "cmd"]>> \o Tail(prog) /\ pc' = "step" /\ UNCHANGED <<failed, empties, rep>>
               ELSE prog' = Tail(prog) /\ pc' = "step" /\ UNCHANGED <<failed, empties, rep>>
          ELSE IF st.k \in {"cmd", "qry"} /\ Dead
               THEN \* the primitive's own guard: returns its failure value, the method carries on
                    /\ prog' = (IF call.m = "motors_enable" /\ st.n = "QE" THEN <<>> ELSE Tail(prog))    \* motors_enable returns when QE gave None
                    /\ failed' = TRUE /\ pc' = "step" /\ UNCHANGED <<empties, rep>>
          ELSE pc' = "write" /\ empties' = 0 /\ rep' = NoRep /\ UNCHANGED <<prog, failed>>
  /\ UNCHANGED <<port, err, name, board, dev, ver, replugs, ncalls, nfaults, call, deadAtEntry, wr, got, ret, errAtEntry, hist>>

\* exactly one write per primitive; the board acts on what it receives
Write ==
  /\ pc = "write"
  /\ LET st == Head(prog) IN
     \/ /\ wr' = Append(wr, st.t) /\ board' = BoardAfter(board, st)
        /\ pc' = IF st.k = "raw" THEN "rawdone" ELSE "read"
        /\ Env([w |-> "ok"]) /\ UNCHANGED <<err, nfaults, failed>>
     \/ /\ nfaults < MaxFaults /\ nfaults' = nfaults + 1            \* write() raises SerialException
        /\ Env([w |-> "raise"])
        /\ IF st.k = "raw" THEN pc' = "rawfail" /\ UNCHANGED <<err, failed>>          \* reboot/bootload: caught, False, nothing recorded
           ELSE RecordError("usb") /\ failed' = TRUE /\ pc' = "after"
        /\ UNCHANGED <<wr, board>>
  /\ UNCHANGED <<port, name, dev, ver, replugs, ncalls, call, prog, deadAtEntry, empties, rep, got, ret, errAtEntry>>

\* reads: a burst of e empty reads, then a line of some kind, or an exception; e > RetryMax is a timeout
Kinds == {"conf", "err", "errnamed", "wrong", "trunc"}
Read ==
  /\ pc = "read"
  /\ LET st == Head(prog)
         limit == IF st.k = "poll" THEN 0 ELSE RetryMax IN
     \E e \in (IF st.k = "poll" THEN {0, 1} ELSE Bursts) :
       IF e > limit
       THEN /\ nfaults < MaxFaults /\ nfaults' = nfaults + 1
            /\ empties' = limit + 1 /\ rep' = [kind |-> "empty", r |-> NoReply] /\ pc' = "validate"
            /\ Env([e |-> e, o |-> "timeout", r |-> NoReply])
       ELSE \/ /\ empties' = e /\ rep' = [kind |-> "conf", r |-> BoardReply(board, st)] /\ pc' = "validate"
               /\ Env([e |-> e, o |-> "conf", r |-> BoardReply(board, st)]) /\ UNCHANGED nfaults
            \/ \E k \in Kinds \ {"conf"} :
                 /\ nfaults < MaxFaults /\ nfaults' = nfaults + 1
                 /\ (k = "trunc" => st.k # "poll")
                 /\ empties' = e /\ rep' = [kind |-> k, r |-> BoardReply(board, st)] /\ pc' = "validate"
                 /\ Env([e |-> e, o |-> k, r |-> BoardReply(board, st)])
            \/ /\ nfaults < MaxFaults /\ nfaults' = nfaults + 1          \* readline() raises
               /\ empties' = e /\ rep' = [kind |-> "raise", r |-> NoReply] /\ pc' = "validate"
               /\ Env([e |-> e, o |-> "raise", r |-> NoReply])
  /\ UNCHANGED <<port, err, name, board, dev, ver, replugs, ncalls, call, prog, deadAtEntry, failed, wr, got, ret, errAtEntry>>

\* the success test of the primitive: reply begins with the request's name and contains no "Err:"
Validate ==
  /\ pc = "validate"
  /\ LET st == Head(prog) ok == rep.kind = "conf" IN
     /\ IF ok THEN /\ got' = IF st.k \in {"qry", "poll"} THEN Append(got, rep.r) ELSE got
                   /\ UNCHANGED <<err, failed>>
        ELSE /\ RecordError(IF rep.kind = "raise" THEN "usb" ELSE IF rep.kind = "empty" THEN "timeout" ELSE rep.kind)
             /\ failed' = TRUE
             \* pinned query_statusbyte: a mismatched reply with a hex tail still yields a number
             /\ got' = IF ~FixStatus /\ st.k = "poll" /\ rep.kind = "wrong" THEN Append(got, rep.r) ELSE got
     /\ pc' = "after"
  /\ UNCHANGED <<port, name, board, dev, ver, replugs, ncalls, nfaults, call, prog, deadAtEntry, empties, rep, wr, ret, errAtEntry, hist>>

\* control returns to the method after a primitive
After ==
  /\ pc = "after"
  /\ LET st == Head(prog) IN
     \* pinned query_voltage / query_current: .split on the None their own failed query returned
     IF ~FixQC /\ call.m \in {"query_voltage", "query_current"} /\ failed THEN pc' = "raised" /\ UNCHANGED prog
     ELSE IF call.m = "motors_enable" /\ st.n = "QE" /\ failed THEN prog' = <<>> /\ pc' = "step"      \* motor_res is None: return
     ELSE prog' = Tail(prog) /\ pc' = "step"
  /\ UNCHANGED <<port, err, name, board, dev, ver, replugs, ncalls, nfaults, call, deadAtEntry, empties, rep, failed, wr, got, ret, errAtEntry, hist>>

RawDone == /\ pc = "rawdone" /\ port' = "none" /\ pc' = "ret" /\ ret' = <<"bool", TRUE>>       \* write ok: disconnect(), True
           /\ UNCHANGED <<err, name, board, dev, ver, replugs, ncalls, nfaults, call, prog, deadAtEntry, empties, rep, failed, wr, got, errAtEntry, hist>>
RawFail == /\ pc = "rawfail" /\ pc' = "ret" /\ ret' = <<"bool", FALSE>> /\ failed' = TRUE
           /\ UNCHANGED <<port, err, name, board, dev, ver, replugs, ncalls, nfaults, call, prog, deadAtEntry, empties, rep, wr, got, errAtEntry, hist>>

\* the method computes its return value
Finish ==
  /\ pc = "finish"
  /\ LET m == call.m
         okAll == ~failed IN
     /\ ret' = IF m = "connect" THEN <<"bool", TRUE>>           \* the handshake succeeded; a failed nickname query does not change that
               ELSE IF okAll THEN SuccessValue(call, got)
               ELSE IF m = "write_nickname" /\ ~FixNick THEN <<"bool", TRUE>>                    \* pinned: True although ST failed
               ELSE IF m = "query_statusbyte" /\ ~FixStatus /\ got # <<>> THEN <<"int", got[1].vals[1]>>
               ELSE IF m = "var_read_int32" THEN NoneV
               ELSE CHOOSE v \in FailSet(m) : TRUE
     /\ name' = IF m = "write_nickname" /\ (okAll \/ ~FixNick) THEN call.s
                ELSE IF m \in {"query_nickname", "connect"} /\ okAll /\ got # <<>> THEN got[Len(got)].s ELSE name       \* an empty answer is stored too ("" : no nickname)
  /\ pc' = "ret"
  /\ UNCHANGED <<port, err, board, dev, ver, replugs, ncalls, nfaults, call, prog, deadAtEntry, empties, rep, failed, wr, got, errAtEntry, hist>>

\* the call returns; what an observer of the object saw of it is appended to the script
EndCall == /\ pc = "ret" /\ pc' = "idle"
           /\ hist' = [hist EXCEPT ![Len(hist)].obs = <<[wr |-> wr, ret |-> ret, errset |-> err # NoErr, open |-> port = "open", failed |-> failed]>>]
           /\ UNCHANGED <<port, err, name, board, dev, ver, replugs, ncalls, nfaults, call, prog, deadAtEntry, empties, rep, failed, wr, got, ret, errAtEntry>>

RecErr == /\ pc = "recerr" /\ RecordError("user") /\ pc' = "ret"
          /\ UNCHANGED <<port, name, board, dev, ver, replugs, ncalls, nfaults, call, prog, deadAtEntry, empties, rep, failed, wr, got, ret, errAtEntry, hist>>
Disconnect == /\ pc = "disconnect" /\ port' = "none" /\ pc' = "ret"
              /\ UNCHANGED <<err, name, board, dev, ver, replugs, ncalls, nfaults, call, prog, deadAtEntry, empties, rep, failed, wr, got, ret, errAtEntry, hist>>

(* ---------------- connect(): resolve, open, probe (twice), verify, version gate, CU,10,1, nickname ---------------- *)
Connect ==
  /\ pc = "connect"
  /\ IF port = "open" THEN pc' = "ret" /\ ret' = <<"bool", TRUE>> /\ UNCHANGED <<port, err, wr, prog, failed, ver>>     \* already connected
     ELSE CASE dev = "absent" ->            \* not in the enumeration
                 /\ RecordError("notfound") /\ ret' = <<"bool", FALSE>> /\ pc' = "ret" /\ failed' = TRUE /\ UNCHANGED <<port, wr, prog, ver>>
            [] dev = "unopenable" ->        \* serial.Serial() raises
                 /\ RecordError("usbtest") /\ ret' = <<"bool", FALSE>> /\ pc' = "ret" /\ failed' = TRUE /\ UNCHANGED <<port, wr, prog, ver>>
            [] dev = "raise_on_probe" ->    \* the first probe's read raises: error, port closed
                 /\ RecordError("usbtest") /\ wr' = <<"v">> /\ ret' = <<"bool", FALSE>> /\ pc' = "ret" /\ failed' = TRUE /\ UNCHANGED <<port, prog, ver>>
            [] dev \in {"non_ebb", "other_versioned", "silent"} ->     \* two probes, neither verified (other_versioned: a foreign device whose banner
                                                                       \* carries a "Firmware Version 3.1.0" of its own - it does not say it is an EBB)
                 /\ RecordError("noconnect") /\ wr' = <<"v", "v">> /\ ret' = <<"bool", FALSE>> /\ pc' = "ret" /\ failed' = TRUE /\ UNCHANGED <<port, prog, ver>>
            [] HasVersion(dev) /\ ~Supported(dev) ->           \* verified, firmware below the minimum
                 /\ RecordError("oldfw") /\ wr' = (IF Late(dev) THEN <<"v", "v">> ELSE <<"v">>) /\ ret' = <<"bool", FALSE>> /\ pc' = "ret" /\ failed' = TRUE /\ ver' = "old"
                 /\ port' = (IF FixConnect THEN "none" ELSE "open") /\ UNCHANGED prog
            [] dev \in {"ebb_noversion", "ebb_in_text"} /\ (FixStale \/ ver # "ok") ->
                 \* "EBB" seen but no version in the reply: nothing known about the firmware -> unsupported
                 /\ RecordError("oldfw") /\ wr' = <<"v">> /\ ret' = <<"bool", FALSE>> /\ pc' = "ret" /\ failed' = TRUE
                 /\ ver' = (IF FixStale THEN "none" ELSE ver) /\ port' = "none" /\ UNCHANGED prog
            [] OTHER ->                      \* ebb_ok (first probe) / ebb_late (second probe): CU,10,1 raw, then the nickname query
                                             \* (pinned, FixStale = FALSE: also a version-less "EBB" reply when a version from an EARLIER board is still cached)
                 /\ wr' = (IF Late(dev) THEN <<"v", "v">> ELSE <<"v">>) \o <<"CU,10,1">>
                 /\ ver' = (IF Supported(dev) THEN "ok" ELSE ver)
                 /\ port' = "open" /\ prog' = <<Stp("qry", "QT", "QT", <<>>, "")>> /\ pc' = "step" /\ UNCHANGED <<err, ret, failed>>
  /\ UNCHANGED <<name, board, dev, replugs, ncalls, nfaults, call, deadAtEntry, empties, rep, got, errAtEntry, hist>>

\* the environment swaps the device on the bus (only while the object holds no port); recorded in the script
Replug(d) ==
  /\ pc = "idle" /\ port = "none" /\ replugs < MaxReplug /\ d # dev
  /\ dev' = d /\ replugs' = replugs + 1 /\ wr' = <<>>          \* nothing has been written to the new device yet
  /\ hist' = Append(hist, [m |-> "<replug>", a |-> <<>>, s |-> d, env |-> <<>>, obs |-> <<>>, dv |-> dev,
                            b0 |-> [nick |-> board.nick, m1 |-> board.m1, m2 |-> board.m2, res |-> board.res, volt |-> board.volt]])
  /\ UNCHANGED <<port, err, name, board, ver, ncalls, nfaults, call, prog, pc, deadAtEntry, empties, rep, failed, got, ret, errAtEntry>>

Next == (\E d \in Devices : Replug(d)) \/ (\E c \in Calls : BeginCall(c)) \/ Entry \/ Step \/ Write \/ Read \/ Validate \/ After \/ RawDone \/ RawFail \/ Finish \/ EndCall
        \/ RecErr \/ Disconnect \/ Connect
Spec == Init /\ [][Next]_vars

(* ======================= the statements ======================= *)
Special == {"connect", "disconnect", "record_error"}
AtRet == pc = "ret"
(* ---- C04 ---- *)
ErrLatched == [][err # NoErr => err' = err]_vars
\* a dead object transmits nothing: only the handshake of connect() writes when the object was dead at entry
SilentWhenDead == (deadAtEntry /\ call.m \notin Special) => wr = <<>>
DeadCallFails == (AtRet /\ deadAtEntry /\ call.m \notin Special) => ret \in FailSet(call.m)
DeadStaysDead == (AtRet /\ deadAtEntry /\ call.m \notin Special) => (err = errAtEntry /\ Dead)
(* ---- C05 ---- *)
NoRaise == pc # "raised"
\* each primitive wrote its text once; nothing is written after the first failure of the call
WriteOncePerRequest == Len(wr) <= Len(Program(call)) + (IF call.m = "connect" THEN 4 ELSE 0)
RetryBound == empties <= RetryMax + 1
\* a call whose own request failed ends with the error recorded and the failure value (raw methods: the value only)
FailureReported == (AtRet /\ ~deadAtEntry /\ failed /\ call.m \notin Special) =>
                      (ret \in FailSet(call.m) /\ (call.m \in {"reboot", "bootload"} \/ err # NoErr))
SuccessReported == (AtRet /\ ~deadAtEntry /\ ~failed /\ call.m \notin Special) => (err = NoErr /\ ret = SuccessValue(call, got))
\* success of a primitive iff conforming reply within the retry budget: recorded error iff some primitive failed
ErrIffFailed == (AtRet /\ ~deadAtEntry /\ call.m \notin (Special \cup {"reboot", "bootload"})) => ((err # NoErr) <=> failed)
(* ---- C15 ---- *)
ConnectTrueOnlyIfSupported == (AtRet /\ call.m = "connect" /\ ret = <<"bool", TRUE>> /\ err = NoErr) => Supported(dev)
ConnectFalseRecords == (AtRet /\ call.m = "connect" /\ ~Supported(dev)) => (ret = <<"bool", FALSE>> /\ err # NoErr)
ProbeOnly == (~Supported(dev)) => \A k \in 1..Len(wr) : wr[k] = "v"
(* ---- C16 ---- *)
Okc == AtRet /\ ~deadAtEntry /\ ~failed
Int32Stored == (Okc /\ call.m = "var_write_int32") =>
   \A k \in 0..3 : board.ram[call.a[2] + k] = Int32Byte(call.a[1], k) /\ board.ram[call.a[2] + k] \in 0..255
Int32RoundTrip == (Okc /\ call.m = "var_read_int32") =>
   ret = <<"int", Int32Join(<<board.ram[call.a[1]], board.ram[call.a[1] + 1], board.ram[call.a[1] + 2], board.ram[call.a[1] + 3]>>)>>
Int32JoinInvertsBytes == (Okc /\ call.m = "var_write_int32") =>
   Int32Join(<<Int32Byte(call.a[1], 0), Int32Byte(call.a[1], 1), Int32Byte(call.a[1], 2), Int32Byte(call.a[1], 3)>>) = call.a[1]
NickRoundTrip == (Okc /\ call.m = "write_nickname") => (board.nick = call.s /\ name = call.s)
NickRead == (Okc /\ call.m = "query_nickname" /\ board.nick # "") => name = board.nick
MotorsPost == (Okc /\ call.m = "motors_enable") =>
   LET c1 == Clamp05(call.a[1]) c2 == Clamp05(call.a[2]) IN
   /\ board.m1 = (c1 # 0) /\ board.m2 = (c2 # 0)
   /\ (c1 # 0 => board.res = c1) /\ (c1 = 0 /\ c2 # 0 => board.res = c2)
(* ---- liveness: every public call that was begun returns - whatever the device does (silence, faults, error lines) ---- *)
FairSpec == Spec /\ WF_vars(Entry \/ Step \/ Write \/ Read \/ Validate \/ After \/ RawDone \/ RawFail \/ Finish \/ EndCall \/ RecErr \/ Disconnect \/ Connect)
EveryCallReturns == (pc # "idle") ~> (pc = "idle")
=============================================================================
