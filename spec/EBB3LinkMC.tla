----------------------------- MODULE EBB3LinkMC -----------------------------
(* Call alphabets, boards and device sets for the EBB3Link configurations.   *)
EXTENDS EBB3Link
C(m, a, s) == [m |-> m, a |-> a, s |-> s]
Ram0 == [i \in 0..31 |-> 0]
Board0 == [ram |-> Ram0, nick |-> "Lab", m1 |-> FALSE, m2 |-> FALSE, res |-> 1, volt |-> 300, p1 |-> 0, p2 |-> 0]
BoardsOne == {Board0}
BoardsNick == {Board0, [Board0 EXCEPT !.nick = ""]}
BoardsMotor == {[Board0 EXCEPT !.m1 = a, !.m2 = b, !.res = r] : a \in BOOLEAN, b \in BOOLEAN, r \in 1..5}
\* one representative call per public request method (C04 / C05): every primitive kind and every program shape
AllMethods ==
  { C("command", <<>>, "SM,100,0,0"), C("command", <<>>, "H"), C("command", <<>>, "S,5"),
    C("query", <<>>, "QX"), C("query", <<>>, "V"), C("query", <<>>, "Q,1"), C("query", <<>>, "QT"),
    C("query_statusbyte", <<>>, ""), C("reboot", <<>>, ""), C("bootload", <<>>, ""),
    C("query_nickname", <<>>, ""), C("write_nickname", <<>>, "Axi"),
    C("var_write", <<7, 3>>, ""), C("var_read", <<3>>, ""), C("var_write_int32", <<-2, 4>>, ""), C("var_read_int32", <<4>>, ""),
    C("timed_pause", <<1600>>, ""), C("xy_move", <<10, -20, 30>>, ""), C("abs_move", <<1000, 0, 5>>, ""),
    C("motors_disable", <<>>, ""), C("motors_enable", <<1, 1>>, ""), C("motors_enable", <<0, 2>>, ""), C("motors_query_enabled", <<>>, ""),
    C("query_steps", <<>>, ""), C("clear_steps", <<>>, ""), C("xy_move", <<-7, 3, 20>>, ""), C("clear_accumulators", <<>>, ""),
    C("pen_lower", <<100, NoneI>>, ""), C("pen_raise", <<100, 0>>, ""),
    C("dio_b_config", <<3, 1, 0>>, ""), C("pb_set", <<3, 0>>, ""), C("dio_b_read", <<3>>, ""),
    C("pen_pos_down", <<16000>>, ""), C("pen_pos_up", <<20000>>, ""), C("pen_rate_down", <<400>>, ""), C("pen_rate_up", <<400>>, ""),
    C("servo_timeout", <<60000, NoneI>>, ""), C("query_voltage", <<NoneI>>, ""), C("query_current", <<>>, ""),
    C("record_error", <<>>, ""), C("connect", <<>>, ""), C("disconnect", <<>>, "") }
\* a smaller alphabet with one method of each shape, for deeper histories
CoreMethods ==
  { C("command", <<>>, "SM,100,0,0"), C("query", <<>>, "QX"), C("query_statusbyte", <<>>, ""), C("reboot", <<>>, ""), C("bootload", <<>>, ""),
    C("write_nickname", <<>>, "Axi"), C("var_write_int32", <<-2, 4>>, ""), C("var_read_int32", <<4>>, ""), C("dio_b_config", <<3, 1, 0>>, ""),
    C("motors_enable", <<0, 2>>, ""), C("query_voltage", <<NoneI>>, ""), C("query_current", <<>>, ""), C("timed_pause", <<800>>, ""), C("xy_move", <<10, -20, 30>>, ""), C("query_steps", <<>>, ""),
    C("record_error", <<>>, ""), C("connect", <<>>, ""), C("disconnect", <<>>, "") }
ConnectMethods ==
  { C("connect", <<>>, ""), C("disconnect", <<>>, ""), C("command", <<>>, "SM,100,0,0"), C("query", <<>>, "QX"), C("bootload", <<>>, ""), C("reboot", <<>>, ""),
    C("query_statusbyte", <<>>, ""), C("var_write", <<7, 3>>, ""), C("motors_enable", <<0, 2>>, ""), C("write_nickname", <<>>, "Axi") }
ReplugMethods == { C("connect", <<>>, ""), C("disconnect", <<>>, ""), C("command", <<>>, "SM,100,0,0"), C("query", <<>>, "QX") }
AllDevices == {"ebb_ok", "ebb_late", "ebb_old", "ebb_late_old", "ebb_noversion", "ebb_in_text", "non_ebb", "other_versioned", "silent", "unopenable", "absent", "raise_on_probe"}
AllDevicesDeep == AllDevices \ {"ebb_late_old", "other_versioned"}          \* the 4-call configuration (its kinds of lateness and of age are each covered by another device)
OkDevices == {"ebb_ok"}
\* the version gate at its edge: the minimum itself, one below, multi-digit components on either side
VersionDevices == {"ebb_min", "ebb_below", "ebb_v3_0_10", "ebb_v10", "ebb_v2_10_9"}
\* C16: board round trips
MinInt32 == (0 - 2147483647) - 1
Int32Vals == {0, 1, -1, 127, 128, 255, 256, 65535, 16777216, -16777216, 16909060, -16909060, 2147483647, -2147483647, MinInt32}
BoardCalls ==
  {C("var_write_int32", <<v, i>>, "") : v \in Int32Vals, i \in {0, 1, 27, 28}} \cup {C("var_read_int32", <<i>>, "") : i \in {0, 1, 27, 28}}
  \cup {C("write_nickname", <<>>, nm) : nm \in {"Axi", "East Wing", "", "Jerry"}} \cup {C("query_nickname", <<>>, "")}
BoardCallsSmall ==
  {C("var_write_int32", <<v, i>>, "") : v \in {0, -1, 255, 256, -16909060, 2147483647}, i \in {0, 2, 28}} \cup {C("var_read_int32", <<i>>, "") : i \in {0, 2, 28}}
  \cup {C("var_write", <<200, 3>>, ""), C("write_nickname", <<>>, "Axi"), C("query_nickname", <<>>, "")}
MotorCalls == {C("motors_enable", <<r1, r2>>, "") : r1 \in (-1)..6, r2 \in (-1)..6} \cup {C("motors_disable", <<>>, ""), C("motors_query_enabled", <<>>, "")}
\* 2-call motor histories affordable on every change: one state the object could wrongly remember across calls, then a request that depends on it
MotorCallsFew == {C("motors_enable", <<r1, r2>>, "") : r1 \in {0, 1, 3, 5}, r2 \in {0, 1, 3, 5}} \cup {C("motors_disable", <<>>, ""), C("motors_query_enabled", <<>>, "")}
BoardsMotorFew == {[Board0 EXCEPT !.m1 = a, !.m2 = b, !.res = 2] : a \in BOOLEAN, b \in BOOLEAN}
\* what the object has come to know (its name), then death, then a request that could lean on that knowledge instead of the guard
RememberCalls == { C("write_nickname", <<>>, "Axi"), C("write_nickname", <<>>, "Lab"), C("write_nickname", <<>>, ""), C("query_nickname", <<>>, ""),
                   C("disconnect", <<>>, ""), C("record_error", <<>>, ""), C("reboot", <<>>, ""), C("command", <<>>, "SM,100,0,0") }
MinVer302 == <<3, 0, 2>>
Burst3 == {0, 1, 25, 26}
Burst2 == {0, 26}
Burst0 == {0}
=============================================================================
