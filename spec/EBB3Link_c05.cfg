SPECIFICATION Spec
CONSTANTS
  Calls <- AllMethods
  MaxCalls = 1
  MaxFaults = 1
  RetryMax = 25
  Bursts <- Burst3
  Devices <- OkDevices
  InitBoards <- BoardsNick
  StartConnected = TRUE
  MinVer <- MinVer302
  FixStatus = TRUE
  FixNick = TRUE
  FixQC = TRUE
  FixConnect = TRUE
  FixStale = TRUE
  MaxReplug = 0
INVARIANT NoRaise
INVARIANT WriteOncePerRequest
INVARIANT RetryBound
INVARIANT FailureReported
INVARIANT SuccessReported
INVARIANT ErrIffFailed
INVARIANT SilentWhenDead
INVARIANT DeadCallFails
INVARIANT DeadStaysDead
PROPERTY ErrLatched
CHECK_DEADLOCK FALSE
