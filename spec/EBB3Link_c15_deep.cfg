SPECIFICATION Spec
CONSTANTS
  Calls <- ConnectMethods
  MaxCalls = 4
  MaxFaults = 1
  RetryMax = 25
  Bursts <- Burst3
  Devices <- AllDevices
  InitBoards <- BoardsOne
  StartConnected = FALSE
  MinVer <- MinVer302
  FixStatus = TRUE
  FixNick = TRUE
  FixQC = TRUE
  FixConnect = TRUE
  FixStale = TRUE
  MaxReplug = 0
INVARIANT NoRaise
INVARIANT ConnectTrueOnlyIfSupported
INVARIANT ConnectFalseRecords
INVARIANT ProbeOnly
INVARIANT SilentWhenDead
INVARIANT DeadCallFails
INVARIANT DeadStaysDead
INVARIANT FailureReported
PROPERTY ErrLatched
CHECK_DEADLOCK FALSE
