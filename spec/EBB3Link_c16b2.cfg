SPECIFICATION Spec
CONSTANTS
  Calls <- MotorCallsFew
  MaxCalls = 2
  MaxFaults = 0
  RetryMax = 25
  Bursts <- Burst0
  Devices <- OkDevices
  InitBoards <- BoardsMotorFew
  StartConnected = TRUE
  MinVer <- MinVer302
  FixStatus = TRUE
  FixNick = TRUE
  FixQC = TRUE
  FixConnect = TRUE
  FixStale = TRUE
  MaxReplug = 0
INVARIANT NoRaise
INVARIANT MotorsPost
INVARIANT SuccessReported
CHECK_DEADLOCK FALSE
