SPECIFICATION Spec
CONSTANTS
  Calls <- BoardCallsSmall
  MaxCalls = 3
  MaxFaults = 0
  RetryMax = 25
  Bursts <- Burst0
  Devices <- OkDevices
  InitBoards <- BoardsOne
  StartConnected = TRUE
  MinVer <- MinVer302
  FixStatus = TRUE
  FixNick = TRUE
  FixQC = TRUE
  FixConnect = TRUE
  FixStale = TRUE
  MaxReplug = 0
INVARIANT NoRaise
INVARIANT Int32Stored
INVARIANT Int32RoundTrip
INVARIANT Int32JoinInvertsBytes
INVARIANT NickRoundTrip
INVARIANT NickRead
INVARIANT SuccessReported
CHECK_DEADLOCK FALSE
