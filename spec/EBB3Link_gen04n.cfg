SPECIFICATION Spec
CONSTANTS
  Calls <- RememberCalls
  MaxCalls = 3
  MaxFaults = 0
  RetryMax = 25
  Bursts <- Burst2
  Devices <- OkDevices
  InitBoards <- BoardsNick
  StartConnected = TRUE
  MinVer <- MinVer302
  FixStatus = TRUE
  FixNick = TRUE
  FixQC = TRUE
  FixConnect = TRUE
  FixStale = TRUE
  MaxReplug = 0
INVARIANT NoRaise
INVARIANT SilentWhenDead
INVARIANT DeadCallFails
INVARIANT DeadStaysDead
INVARIANT FailureReported
PROPERTY ErrLatched
CHECK_DEADLOCK FALSE
