SPECIFICATION Spec
CONSTANTS
  Calls <- ReplugMethods
  MaxCalls = 3
  MaxFaults = 0
  RetryMax = 25
  Bursts <- Burst2
  Devices <- AllDevices
  InitBoards <- BoardsOne
  StartConnected = FALSE
  MinVer <- MinVer302
  FixStatus = TRUE
  FixNick = TRUE
  FixQC = TRUE
  FixConnect = TRUE
  FixStale = TRUE
  MaxReplug = 1
CHECK_DEADLOCK FALSE
INVARIANT NoRaise
