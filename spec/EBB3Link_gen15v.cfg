SPECIFICATION Spec
CONSTANTS
  Calls <- ConnectMethods
  MaxCalls = 2
  MaxFaults = 1
  RetryMax = 25
  Bursts <- Burst2
  Devices <- VersionDevices
  InitBoards <- BoardsOne
  StartConnected = FALSE
  MinVer <- MinVer302
  FixStatus = TRUE
  FixNick = TRUE
  FixQC = TRUE
  FixConnect = TRUE
  FixStale = TRUE
  MaxReplug = 0
CHECK_DEADLOCK FALSE
INVARIANT NoRaise
INVARIANT ConnectTrueOnlyIfSupported
INVARIANT ConnectFalseRecords
INVARIANT ProbeOnly
