SPECIFICATION FairSpec
CONSTANTS
  Calls <- AllMethods
  MaxCalls = 1
  MaxFaults = 1
  RetryMax = 25
  Bursts <- Burst3
  Devices <- OkDevices
  InitBoards <- BoardsNick
  StartConnected = TRUE
  MinVer <- MinVer302
  FixStatus = TRUE
  FixNick = TRUE
  FixQC = TRUE
  FixConnect = TRUE
  FixStale = TRUE
  MaxReplug = 0
CHECK_DEADLOCK FALSE
PROPERTY EveryCallReturns
