------------------------------- MODULE EBB3Ops -------------------------------
(* Operators shared by the EBB3 link model (EBB3Link) and the trace judge      *)
(* (EBB3Trace): the board (device) model, the method programs as data, the     *)
(* failure-value sets and the success value of every public request method.    *)
EXTENDS EBBCmds, FiniteSets
NoErr == <<0, "none">>
Void == <<"void">>
\* devices that identify themselves as an EBB with a firmware version, and that version; whether connect() may accept one is the NUMERIC
\* comparison with the minimum (C15): 3.0.2 itself is supported, 3.0.1 is not, 3.0.10 and 10.0.0 are newer than 3.0.2, 2.10.9 is not
VerGE(v, t) == v[1] > t[1] \/ (v[1] = t[1] /\ (v[2] > t[2] \/ (v[2] = t[2] /\ v[3] >= t[3])))
DevVersions == [ebb_ok |-> <<3, 0, 3>>, ebb_late |-> <<3, 0, 3>>, ebb_old |-> <<2, 8, 1>>, ebb_min |-> <<3, 0, 2>>, ebb_below |-> <<3, 0, 1>>,
                ebb_v3_0_10 |-> <<3, 0, 10>>, ebb_v10 |-> <<10, 0, 0>>, ebb_v2_10_9 |-> <<2, 10, 9>>, ebb_late_old |-> <<2, 8, 1>>]
Late(d) == d \in {"ebb_late", "ebb_late_old"}            \* answers only the second identification probe
HasVersion(d) == d \in DOMAIN DevVersions
SupportedDev(d, minver) == HasVersion(d) /\ VerGE(DevVersions[d], minver)
NoneV == <<"none">>

(* ---------------- the board ---------------- *)
\* [ram, nick, m1, m2, res, volt, p1, p2]; replies are [vals |-> <<ints>>, s |-> string]
ResCode(r) == CASE r = 1 -> 16 [] r = 2 -> 8 [] r = 3 -> 4 [] r = 4 -> 2 [] r = 5 -> 1 [] OTHER -> 0
CodeRes(c) == CASE c = 16 -> 1 [] c = 8 -> 2 [] c = 4 -> 3 [] c = 2 -> 4 [] c = 1 -> 5 [] OTHER -> 0
NoReply == [vals |-> <<>>, s |-> ""]
\* structured view of a step for the board: n = name, v = integer args, s = text arg
BoardAfter(b, st) ==
  CASE st.n = "SL" -> IF st.v[2] \in 0..31 /\ st.v[1] \in 0..255 THEN [b EXCEPT !.ram[st.v[2]] = st.v[1]] ELSE b
    [] st.n = "ST" -> [b EXCEPT !.nick = st.s]
    [] st.n = "EM" -> LET e1 == st.v[1] e2 == st.v[2] IN
                      [b EXCEPT !.m1 = (e1 # 0), !.m2 = (e2 # 0), !.res = IF e1 \in 1..5 THEN e1 ELSE @]
    \* global step counters (growth beyond the list): SM,<t>,<axis1>,<axis2> adds the deltas, CS clears them, QS reports them
    [] st.n = "SM" -> [b EXCEPT !.p1 = @ + st.v[2], !.p2 = @ + st.v[3]]
    [] st.n = "CS" -> [b EXCEPT !.p1 = 0, !.p2 = 0]
    [] OTHER -> b
BoardReply(b, st) ==
  CASE st.n = "QL" -> [vals |-> <<b.ram[st.v[1]]>>, s |-> ""]
    [] st.n = "QT" -> [vals |-> <<>>, s |-> b.nick]
    [] st.n = "QE" -> [vals |-> <<IF b.m1 THEN ResCode(b.res) ELSE 0, IF b.m2 THEN ResCode(b.res) ELSE 0>>, s |-> ""]
    [] st.n = "QS" -> [vals |-> <<b.p1, b.p2>>, s |-> ""]
    [] st.n = "QC" -> [vals |-> <<394, b.volt>>, s |-> ""]
    [] st.n = "PI" -> [vals |-> <<1>>, s |-> ""]
    [] st.n = "QG" -> [vals |-> <<62>>, s |-> ""]
    [] st.n = "QX" -> [vals |-> <<7>>, s |-> ""]            \* payload of the generic query() request of the alphabet
    [] OTHER -> NoReply

(* ---------------- method programs ---------------- *)
Stp(k, t, n, v, s) == [k |-> k, t |-> t, n |-> n, v |-> v, s |-> s]
Plain(k, lines) == [i \in 1..Len(lines) |-> Stp(k, lines[i], "", <<>>, "")]
QueryMethods == {"dio_b_read", "var_read", "query_voltage", "query_current", "motors_query_enabled", "query_nickname", "query_steps"}
Program(c) ==
  LET m == c.m a == c.a IN
  CASE m = "command"  -> <<Stp("cmd", c.s, "", <<>>, "")>>
    [] m = "query"    -> <<Stp("qry", c.s, IF c.s = "QT" THEN "QT" ELSE "QX", <<>>, "")>>       \* query("QT"): the nickname, possibly empty
    [] m = "query_statusbyte" -> <<Stp("poll", "QG", "QG", <<>>, "")>>
    [] m \in {"reboot", "bootload"} -> Plain("raw", Lines(m, a))
    [] m = "write_nickname" -> <<Stp("cmd", "ST," \o c.s, "ST", <<>>, c.s)>>
    [] m = "query_nickname" -> <<Stp("qry", "QT", "QT", <<>>, "")>>
    [] m = "var_write" -> <<Stp("cmd", Lines(m, a)[1], "SL", a, "")>>
    [] m = "var_read"  -> <<Stp("qry", Lines(m, a)[1], "QL", a, "")>>
    [] m = "var_write_int32" -> [k \in 1..4 |-> Stp("cmd", Lines(m, a)[k], "SL", <<Int32Byte(a[1], k - 1), a[2] + k - 1>>, "")]
    [] m = "var_read_int32"  -> [k \in 1..4 |-> Stp("qry", Lines(m, a)[k], "QL", <<a[1] + k - 1>>, "")]
    [] m = "motors_disable" -> <<Stp("cmd", "EM,0,0", "EM", <<0, 0>>, "")>>
    [] m = "motors_query_enabled" -> <<Stp("qry", "QE", "QE", <<>>, "")>>
    [] m = "motors_enable" ->
         LET c1 == Clamp05(a[1]) c2 == Clamp05(a[2]) IN
         (IF (c1 # c2) /\ (c1 * c2 = 0) THEN <<Stp("cmd", "CU,50,0", "CU", <<>>, "")>> ELSE <<>>)
         \o (IF c1 = 0 /\ c2 # 0 THEN <<Stp("qry", "QE", "QE", <<>>, ""), Stp("qeb", "EM," \o S(c2) \o "," \o S(c2), "EM", <<c2, c2>>, "")>> ELSE <<>>)
         \o <<Stp("cmd", "EM," \o S(c1) \o "," \o S(c2), "EM", <<c1, c2>>, "")>>
    [] m = "query_steps" -> <<Stp("qry", "QS", "QS", <<>>, "")>>
    [] m = "xy_move" -> <<Stp("cmd", Lines(m, a)[1], "SM", <<a[3], a[2], a[1]>>, "")>>          \* duration, axis 1 (Y), axis 2 (X)
    [] m = "timed_pause" -> LET ch == PauseChunks(a[1]) IN [k \in 1..Len(ch) |-> Stp("cmd", PauseLines(a[1])[k], "SM", <<ch[k], 0, 0>>, "")]
    [] m = "clear_steps" -> <<Stp("cmd", "CS", "CS", <<>>, "")>>
    [] m \in {"query_voltage", "query_current"} -> <<Stp("qry", "QC", "QC", <<>>, "")>>
    [] m = "dio_b_read" -> <<Stp("qry", Lines(m, a)[1], "PI", a, "")>>
    [] m \in {"record_error", "connect", "disconnect", "none"} -> <<>>
    [] OTHER -> Plain("cmd", Lines(m, a))
\* what the method returns when it fails / when the object is dead at entry
FailSet(m) ==
  CASE m \in {"command", "write_nickname", "var_write", "var_write_int32", "reboot", "bootload", "connect"} -> {<<"bool", FALSE>>}
    [] m \in {"query", "query_statusbyte", "var_read", "motors_query_enabled", "query_steps", "dio_b_read", "query_voltage"} -> {NoneV}
    [] m = "var_read_int32" -> {NoneV, <<"bool", FALSE>>}
    [] m = "query_current" -> {<<"nonepair">>}
    [] OTHER -> {Void}
Int32Join(b) == IF b[1] < 128 THEN ((b[1] * 256 + b[2]) * 256 + b[3]) * 256 + b[4]
                ELSE 0 - ((((255 - b[1]) * 256 + (255 - b[2])) * 256 + (255 - b[3])) * 256 + (255 - b[4])) - 1
\* the value of a call that succeeded; got = replies of its successful queries, in order
SuccessValue(c, got) ==
  LET m == c.m IN
  CASE m \in {"command", "write_nickname", "var_write", "var_write_int32", "reboot", "bootload"} -> <<"bool", TRUE>>
    [] m = "query" -> <<"text", got[1]>>
    [] m \in {"query_statusbyte", "var_read"} -> <<"int", got[1].vals[1]>>
    [] m = "var_read_int32" -> <<"int", Int32Join(<<got[1].vals[1], got[2].vals[1], got[3].vals[1], got[4].vals[1]>>)>>
    [] m = "motors_query_enabled" -> <<"pair", CodeRes(got[1].vals[1]), CodeRes(got[1].vals[2])>>
    [] m \in {"query_steps", "query_current"} -> <<"pair", got[1].vals[1], got[1].vals[2]>>
    [] m = "dio_b_read" -> <<"bool", got[1].vals[1] # 0>>
    [] m = "query_voltage" -> <<"bool", got[1].vals[2] >= (IF c.a[1] = NoneI THEN 250 ELSE c.a[1])>>
    [] OTHER -> Void

=============================================================================
