SPECIFICATION Spec
CONSTANTS
  Calls <- CoreMethods
  MaxCalls = 3
  MaxFaults = 2
  RetryMax = 25
  Bursts <- Burst2
  Devices <- AllDevices
  InitBoards <- BoardsOne
  StartConnected = FALSE
  MinVer <- MinVer302
  FixStatus = TRUE
  FixNick = TRUE
  FixQC = TRUE
  FixConnect = TRUE
VIEW core
PROPERTY Implements
PROPERTY AbsLatched
CHECK_DEADLOCK FALSE
