------------------------------ MODULE EBB3Refine ------------------------------
(* Refinement: EBB3Link implements EBB3Abs under the mapping below (checked by  *)
(* TLC as a temporal property of the impl-shaped specification).                *)
EXTENDS EBB3LinkMC
Abs == INSTANCE EBB3Abs WITH
         aOpen <- (port = "open"),
         aErr <- err,
         aBusy <- (pc # "idle"),
         aDeadEntry <- deadAtEntry,
         aSpecial <- (call.m \in Special),
         aWire <- wr
Implements == Abs!ASpec
AbsLatched == Abs!ALatched
=============================================================================
