------------------------------ MODULE EBB3Trace ------------------------------
(* Code -> spec for C04 / C05 / C15 / C16.  One event = one complete history  *)
(* of a real EBB3 / EBBMotionWrap object against a scripted port: for every    *)
(* public call the port-operation log (each write with its framing, each read  *)
(* with the kind of line the port served, raised exceptions), the returned      *)
(* value and what an observer sees of the object afterwards.  The judge is the  *)
(* ABSTRACT semantics: request/response with a latched first error, against    *)
(* the EBB3Ops board; it re-simulates the board from the writes it sees.        *)
(* `focus` selects whose clauses are evaluated (C04, C05, C15 or C16).          *)
EXTENDS EBB3Ops, Json, IOUtils
Trace == ndJsonDeserialize(IOEnv.TRACE_FILE)
VARIABLES i, verdict
RMax == 25
Sq(x) == [k \in 1..Len(x) |-> x[k]]
Rep(op) == [vals |-> Sq(op.vals), s |-> op.s]
Unsupported(d) == ~SupportedDev(d, <<3, 0, 2>>)
Special == {"connect", "disconnect", "record_error"}
CallOf(c) == [m |-> c.m, a |-> Sq(c.a), s |-> c.s]

\* split ops into the leading reads and the rest (from the next write on)
RECURSIVE LeadReads(_, _)
LeadReads(ops, k) == IF k > Len(ops) \/ ops[k].k = "w" THEN k - 1 ELSE LeadReads(ops, k + 1)
RECURSIVE CountEmpty(_, _, _)
CountEmpty(ops, k, hi) == IF k > hi \/ ops[k].kind # "empty" THEN 0 ELSE 1 + CountEmpty(ops, k + 1, hi)

\* walk the program of one call against its op log.
\* returns [v |-> "ok" or a clause, failed, got, board]
RECURSIVE Walk(_, _, _, _, _, _, _)
Walk(c, steps, ops, b, got, failed, focus) ==
  LET F(p) == focus = p
      Res(v, f, g, bb) == [v |-> v, failed |-> f, got |-> g, board |-> bb] IN
  IF failed THEN
       (IF F("C04") /\ \E k \in 1..Len(ops) : ops[k].k = "w" THEN Res("latch.transmits_after_error_recorded", TRUE, got, b) ELSE Res("ok", TRUE, got, b))
  ELSE IF steps = <<>> THEN
       (IF F("C05") /\ ops # <<>> THEN Res("frame.request_sent_more_than_once_or_unexpected_io", FALSE, got, b) ELSE Res("ok", FALSE, got, b))
  ELSE LET st == Head(steps) IN
  IF st.k = "qeb" THEN
       LET qe == got[Len(got)].vals
           r1 == CodeRes(qe[1]) r2 == CodeRes(qe[2])
           old == IF r1 # 0 THEN r1 ELSE IF r2 # 0 THEN r2 ELSE 0 IN
       IF old # st.v[1] THEN Walk(c, <<[st EXCEPT !.k = "cmd"]>> \o Tail(steps), ops, b, got, failed, focus)
       ELSE Walk(c, Tail(steps), ops, b, got, failed, focus)
  ELSE IF ops = <<>> \/ ops[1].k # "w" THEN
       (IF F("C05") THEN Res("frame.request_not_transmitted", FALSE, got, b) ELSE Res("skip", FALSE, got, b))
  ELSE LET w == ops[1] IN
  \* timed_pause and motors_enable may render their request in more than one documented way (C06 judges those by the statement): not C05's concern
  IF F("C05") /\ w.t # st.t /\ c.m \in {"timed_pause", "motors_enable"} THEN Res("skip", FALSE, got, b)
  ELSE IF F("C05") /\ w.t # st.t THEN Res(IF c.m \in {"command", "query"} THEN "frame.trimmed_text" ELSE "frame.request_text", FALSE, got, b)
  ELSE IF w.t # st.t THEN Res("skip", FALSE, got, b)                         \* another property's concern; cannot follow this history further
  ELSE IF F("C05") /\ ~w.clean THEN Res("frame.exactly_one_carriage_return", FALSE, got, b)
  ELSE IF w.raised THEN Walk(c, <<>>, Tail(ops), b, got, TRUE, focus)          \* the write raised: the request failed
  ELSE LET b2 == BoardAfter(b, st)
           rest == Tail(ops)
           nr == LeadReads(rest, 1)                   \* reads belonging to this primitive
           ne == CountEmpty(rest, 1, nr)
           after == SubSeq(rest, nr + 1, Len(rest))
           limit == IF st.k = "poll" THEN 0 ELSE RMax IN
       IF st.k = "raw" THEN
            (IF F("C05") /\ nr > 0 THEN Res("frame.raw_request_reads_reply", FALSE, got, b2) ELSE Walk(c, Tail(steps), after, b2, got, FALSE, focus))
       ELSE IF ne = nr THEN                            \* nothing but empty reads
            IF ne = limit + 1 THEN Walk(c, <<>>, after, b2, got, TRUE, focus)                 \* timeout after exactly the allowed number of reads
            ELSE IF F("C05") THEN Res(IF ne < limit + 1 THEN "retry.gives_up_before_25_empty_reads" ELSE "retry.reads_beyond_25_empty_reads", FALSE, got, b2)
            ELSE Res("skip", FALSE, got, b2)
       ELSE LET last == rest[ne + 1] IN
            IF ne > limit THEN (IF F("C05") THEN Res("retry.reads_beyond_25_empty_reads", FALSE, got, b2) ELSE Res("skip", FALSE, got, b2))
            ELSE IF nr > ne + 1 THEN (IF F("C05") THEN Res("frame.reads_after_reply", FALSE, got, b2) ELSE Res("skip", FALSE, got, b2))
            ELSE IF last.kind = "conf" THEN
                 (IF Rep(last) # BoardReply(b2, st) THEN Res("desync.board_reply", FALSE, got, b2)
                  ELSE Walk(c, Tail(steps), after, b2, IF st.k \in {"qry", "poll"} THEN Append(got, Rep(last)) ELSE got, FALSE, focus))
            ELSE Walk(c, <<>>, after, b2, got, TRUE, focus)                                   \* error line / wrong name / truncated / exception

\* the abstract return value as the harness encodes it
RetOf(c) == IF c.ret[1] = "bool" THEN <<"bool", c.ret[2]>>
            ELSE IF c.ret[1] = "int" THEN <<"int", c.ret[2] * 65536 + c.ret[3]>>       \* sent as two halves
            ELSE IF c.ret[1] = "pair" THEN <<"pair", c.ret[2], c.ret[3]>> ELSE <<c.ret[1]>>
ExpectedRet(cl, got) ==
  LET v == SuccessValue(cl, got) IN IF v[1] = "text" THEN <<"text_of_reply">> ELSE v
\* helpers whose documentation promises no return value may pass on what their command() returned: nothing, or its success flag
RetMatches(r, exp) == r = exp \/ (exp = Void /\ r = <<"bool", TRUE>>)
FailSetT(m) == IF FailSet(m) = {Void} THEN {Void, <<"bool", FALSE>>} ELSE FailSet(m)

\* C16: the board after a successful call
BoardClause(cl, c, b, got) ==
  CASE cl.m = "var_write_int32" ->
         IF \A k \in 0..3 : b.ram[cl.a[2] + k] = Int32Byte(cl.a[1], k) THEN "ok" ELSE "board.int32_stored_big_endian"
    [] cl.m = "var_read_int32" ->
         IF RetOf(c) = <<"int", Int32Join(<<b.ram[cl.a[1]], b.ram[cl.a[1] + 1], b.ram[cl.a[1] + 2], b.ram[cl.a[1] + 3]>>)>> THEN "ok" ELSE "board.int32_read_back"
    [] cl.m = "write_nickname" -> IF b.nick = cl.s /\ c.name = cl.s THEN "ok" ELSE "board.nickname_written"
    [] cl.m = "query_nickname" -> IF b.nick = "" \/ c.name = b.nick THEN "ok" ELSE "board.nickname_read_back"
    \* what the board reports, as the layer hands it to the caller
    [] cl.m = "motors_query_enabled" ->
         IF RetOf(c) = <<"pair", IF b.m1 THEN b.res ELSE 0, IF b.m2 THEN b.res ELSE 0>> THEN "ok" ELSE "board.motor_state_reported"
    [] cl.m = "var_write" -> IF b.ram[cl.a[2]] = cl.a[1] THEN "ok" ELSE "board.variable_written"
    [] cl.m = "var_read" -> IF RetOf(c) = <<"int", b.ram[cl.a[1]]>> THEN "ok" ELSE "board.variable_read_back"
    [] cl.m = "motors_enable" ->
         LET c1 == Clamp05(cl.a[1]) c2 == Clamp05(cl.a[2]) IN
         IF b.m1 = (c1 # 0) /\ b.m2 = (c2 # 0) /\ (c1 # 0 => b.res = c1) /\ (c1 = 0 /\ c2 # 0 => b.res = c2) THEN "ok" ELSE "board.motor_state_after_enable"
    [] OTHER -> "ok"

\* the board as driven by the bytes actually written in a call (each write is lexed by the harness into name / integer args / text arg)
RECURSIVE OpsBoard(_, _, _)
OpsBoard(ops, k, b) ==
  IF k > Len(ops) THEN b
  ELSE IF ops[k].k = "w" /\ ~ops[k].raised THEN OpsBoard(ops, k + 1, BoardAfter(b, [n |-> ops[k].n, v |-> Sq(ops[k].v), s |-> ops[k].sarg]))
  ELSE OpsBoard(ops, k + 1, b)

\* one call
JudgeCall(c, dev0, b, focus) ==
  LET cl == CallOf(c)
      dev == c.dev                 \* the device on the bus during this call (the environment may have swapped it)
      ops == Sq(c.ops)
      F(p) == focus = p
      nw == Cardinality({k \in 1..Len(ops) : ops[k].k = "w"})
      R(v, bb) == [v |-> v, board |-> bb] IN
  \* the port's close() complained while this call gave the port up (the device was already gone): C05 says nothing about what reboot /
  \* bootload / disconnect report then; C04 still demands that the object ends up not connected
  \* (a request method that RAISES is judged all the same; disconnect is no request method under C05)
  IF F("C05") /\ c.close_raised /\ cl.m \in {"reboot", "bootload", "disconnect"}
     THEN R(IF c.raised /\ cl.m # "disconnect" THEN "fault.public_method_raises" ELSE "ok", b)
  \* C04: "disconnecting remains possible" - a disconnect() that raises has not disconnected
  ELSE IF c.raised /\ F("C04") /\ cl.m = "disconnect" THEN R("latch.disconnect_closes_without_io", b)
  ELSE IF c.raised /\ F("C15") /\ cl.m = "connect" THEN
       R(IF Unsupported(dev) THEN "connect.unsupported_device_returns_false_with_error" ELSE "skip", b)
  ELSE IF c.raised /\ F("C05") /\ cl.m # "connect" THEN R("fault.public_method_raises", b)
  \* C16: a request that raises although the board answered everything it was asked as documented has not made its round trip
  ELSE IF c.raised /\ F("C16") /\ ~c.dead_before /\ cl.m \notin Special
          /\ (\A k \in 1..Len(ops) : ~ops[k].raised /\ (ops[k].k = "r" => ops[k].kind = "conf"))
       THEN R("board.round_trip_fails_against_conforming_board", b)
  ELSE IF c.raised THEN R(IF F("C04") /\ c.dead_before /\ cl.m \notin Special THEN "latch.dead_call_raises" ELSE "skip", b)
  ELSE IF F("C04") /\ c.err_before /\ ~c.err_same THEN R("latch.recorded_error_replaced", b)
  ELSE IF cl.m = "connect" THEN
       (IF F("C15") /\ Unsupported(dev) /\ ~(RetOf(c) = <<"bool", FALSE>> /\ c.err_set) THEN R("connect.unsupported_device_returns_false_with_error", b)
        ELSE IF F("C15") /\ RetOf(c) = <<"bool", TRUE>> /\ ~c.err_set /\ Unsupported(dev) THEN R("connect.true_only_for_supported_board", b)
        ELSE IF F("C15") /\ Unsupported(dev) /\ \E k \in 1..Len(ops) : ops[k].k = "w" /\ ops[k].t # "v" THEN R("connect.unsupported_device_receives_only_probes", b)
        ELSE R("ok", b))
  ELSE IF cl.m = "disconnect" THEN R(IF F("C04") /\ (c.port_open \/ nw > 0) THEN "latch.disconnect_closes_without_io" ELSE "ok", b)
  ELSE IF cl.m = "record_error" THEN R(IF F("C04") /\ (~c.err_set \/ nw > 0) THEN "latch.record_error_records_first_only" ELSE "ok", b)
  ELSE IF c.dead_before THEN
       (IF F("C04") /\ nw > 0 THEN R("latch.dead_object_transmits", b)
        ELSE IF F("C15") /\ Unsupported(dev) /\ nw > 0 THEN R("connect.unsupported_device_receives_only_probes", b)
        ELSE IF F("C04") /\ RetOf(c) \notin FailSetT(cl.m) THEN R("latch.dead_call_returns_failure_value", b)
        ELSE IF F("C04") /\ c.err_before /\ ~c.err_set THEN R("latch.recorded_error_replaced", b)
        ELSE R("ok", b))
  ELSE IF F("C04") THEN      \* inside a live call: once a request of the call has failed (the error is recorded) nothing more is transmitted
       LET FailAt(k) == \/ (ops[k].k = "w" /\ ops[k].raised)
                        \/ (ops[k].k = "r" /\ ops[k].kind \in {"err", "errnamed", "wrong", "trunc", "raise"})
                        \/ (ops[k].k = "r" /\ ops[k].kind = "empty" /\ (k = Len(ops) \/ ops[k + 1].k = "w")) IN
       IF cl.m \notin {"reboot", "bootload"} /\ \E k \in 1..Len(ops) : FailAt(k) /\ \E j \in (k + 1)..Len(ops) : ops[j].k = "w"
       THEN R("latch.transmits_after_error_recorded", b)
       \* reboot / bootload that report success have given the port up ("only connecting remains possible"), whatever close() said while doing so
       ELSE IF cl.m \in {"reboot", "bootload"} /\ RetOf(c) = <<"bool", TRUE>> /\ c.port_open THEN R("latch.reboot_leaves_object_disconnected", b)
       ELSE R("ok", b)
  ELSE IF F("C15") THEN R("ok", b)
  ELSE IF F("C16") THEN      \* the statement is about the board after calls that succeeded, whatever the object did to get there
       LET b2 == OpsBoard(ops, 1, b)
           okc == ~c.err_set /\ (FailSet(cl.m) = {Void} \/ RetOf(c) \notin FailSet(cl.m))
           \* the board answered every request of this call as documented (no injected fault, no timeout)
           clean == \A k \in 1..Len(ops) : ~ops[k].raised /\ (ops[k].k = "r" => ops[k].kind = "conf")
           \* ... or reports failure (the methods whose failure value is distinct from every success value)
           fails == FailSet(cl.m) # {Void} /\ RetOf(c) \in FailSet(cl.m)
                    /\ cl.m \in {"var_write_int32", "var_read_int32", "var_write", "var_read", "write_nickname", "motors_query_enabled"} IN
       IF clean /\ (c.err_set \/ fails) THEN R("board.round_trip_fails_against_conforming_board", b2)
       ELSE IF okc /\ BoardClause(cl, c, b2, <<>>) # "ok" THEN R(BoardClause(cl, c, b2, <<>>), b2) ELSE R("ok", b2)
  ELSE LET w == Walk(cl, Program(cl), ops, b, <<>>, FALSE, focus) IN
       IF w.v # "ok" THEN R(w.v, w.board)
       ELSE IF w.failed THEN
            (IF F("C05") /\ RetOf(c) \notin FailSetT(cl.m) THEN R("fault.failure_return_value", w.board)
             ELSE IF F("C05") /\ cl.m \notin {"reboot", "bootload"} /\ ~c.err_set THEN R("fault.failure_recorded_as_error", w.board)
             ELSE R("ok", w.board))
       ELSE IF F("C05") /\ c.err_set THEN R("success.no_error_recorded", w.board)
       ELSE IF F("C05") /\ ~RetMatches(RetOf(c), ExpectedRet(cl, w.got)) THEN R("success.returns_reply_of_own_request", w.board)
       ELSE R("ok", w.board)

RECURSIVE JudgeCalls(_, _, _, _, _)
JudgeCalls(cs, k, dev, b, focus) ==
  IF k > Len(cs) THEN "ok"
  ELSE LET r == JudgeCall(cs[k], dev, b, focus) IN
       IF r.v = "skip" THEN "skip@" \o ToString(k)
       ELSE IF r.v # "ok" THEN r.v \o "@" \o ToString(k)
       ELSE JudgeCalls(cs, k + 1, dev, r.board, focus)
Board0(e) == [ram |-> [x \in 0..31 |-> 0], nick |-> e.nick0, m1 |-> e.m1, m2 |-> e.m2, res |-> e.res, volt |-> e.volt, p1 |-> 0, p2 |-> 0]
Judge(e) == JudgeCalls(Sq(e.calls), 1, e.dev, Board0(e), e.focus)
TInit == i = 0 /\ verdict = "init"
TNext == i < Len(Trace) /\ i' = i + 1 /\ verdict' = Judge(Trace[i + 1])
TSpec == TInit /\ [][TNext]_<<i, verdict>>
=============================================================================
