------------------------------ MODULE EBBCmds ------------------------------
(* The documented EBB command text of every motion / pen / motor / I/O /       *)
(* configuration helper of both layers (function-style ebb_motion + ebb_serial, *)
(* and the EBB3 / EBBMotionWrap classes), from the EBB command reference as     *)
(* quoted in the helpers' docstrings.  Lines are WITHOUT the terminating CR;    *)
(* every request is its line followed by exactly one CR.                        *)
(*   a : sequence of integer arguments, NoneI where an optional one is absent   *)
(* An optional argument is present iff supplied - zero is a value.              *)
EXTENDS Integers, Sequences, TLC
NoneI == -1000001
S(n) == ToString(n)
C2(a, b) == a \o "," \o b
Clamp05(r) == IF r < 0 THEN 0 ELSE IF r > 5 THEN 5 ELSE r

\* timed pause of n ms: zero-move SM commands of 1..750 ms each, summing to n; none for n <= 0
RECURSIVE PauseChunks(_)
PauseChunks(n) == IF n <= 0 THEN <<>> ELSE LET d == IF n > 750 THEN 750 ELSE n IN <<d>> \o PauseChunks(n - d)
PauseLines(n) == LET c == PauseChunks(n) IN [k \in 1..Len(c) |-> "SM," \o S(c[k]) \o ",0,0"]
RECURSIVE SumSeq(_)
SumSeq(s) == IF s = <<>> THEN 0 ELSE Head(s) + SumSeq(Tail(s))

\* a low-level move is suppressed only when neither axis can move
AxisIdle(rate, steps, accel) == (rate = 0 /\ accel = 0) \/ steps = 0
\* big-endian two's complement bytes of a signed 32-bit value, without leaving 32-bit arithmetic
ByteOfNat(n, k) == (n \div (IF k = 0 THEN 16777216 ELSE IF k = 1 THEN 65536 ELSE IF k = 2 THEN 256 ELSE 1)) % 256      \* k = 0 most significant
Int32Byte(v, k) == IF v >= 0 THEN ByteOfNat(v, k) ELSE 255 - ByteOfNat(0 - (v + 1), k)       \* -(v+1) also fits for v = -2^31

\* Helpers that exist in BOTH layers carry the same id; Layer(h) says where a helper exists.
Both == {"timed_pause", "xy_move", "abs_move", "motors_disable", "motors_enable_both", "pen_lower", "pen_raise",
         "pb_config_out", "pb_set", "pen_pos_down", "pen_pos_up", "pen_rate_down", "pen_rate_up", "servo_timeout", "query_steps",
         "write_nickname", "query_nickname", "query_voltage", "reboot", "bootload"}
LegacyOnly == {"ab_move", "lowlevel_move", "toggle_pen", "set_layer", "query_layer", "query_pen_up", "query_button", "query_motors_pins"}
EBB3Only == {"dio_b_config", "dio_b_read", "clear_steps", "clear_accumulators", "var_write", "var_read", "var_write_int32", "var_read_int32",
             "query_current", "motors_query_enabled", "query_statusbyte"}
Helpers == Both \cup LegacyOnly \cup EBB3Only

Lines(h, a) ==
  CASE h = "ab_move"        -> << "XM," \o S(a[3]) \o "," \o S(a[1]) \o "," \o S(a[2]) >>          \* (delta_a, delta_b, duration)
    [] h = "timed_pause"    -> PauseLines(a[1])
    [] h = "lowlevel_move"  -> IF AxisIdle(a[1], a[2], a[3]) /\ AxisIdle(a[4], a[5], a[6]) THEN <<>>
                               ELSE << "LM," \o S(a[1]) \o "," \o S(a[2]) \o "," \o S(a[3]) \o "," \o S(a[4]) \o "," \o S(a[5]) \o "," \o S(a[6])
                                       \o (IF a[7] = NoneI THEN "" ELSE "," \o S(a[7])) >>
    [] h = "xy_move"        -> << "SM," \o S(a[3]) \o "," \o S(a[2]) \o "," \o S(a[1]) >>          \* (dx, dy, duration): duration, axis1 = Y, axis2 = X
    [] h = "abs_move"       -> IF a[2] # NoneI /\ a[3] # NoneI THEN << "HM," \o S(a[1]) \o "," \o S(a[2]) \o "," \o S(a[3]) >> ELSE << "HM," \o S(a[1]) >>
    [] h = "motors_disable" -> << "EM,0,0" >>
    [] h = "motors_enable_both" -> << "EM," \o S(Clamp05(a[1])) \o "," \o S(Clamp05(a[1])) >>
    [] h = "pen_lower"      -> << "SP,0," \o S(a[1]) \o (IF a[2] = NoneI THEN "" ELSE "," \o S(a[2])) >>
    [] h = "pen_raise"      -> << "SP,1," \o S(a[1]) \o (IF a[2] = NoneI THEN "" ELSE "," \o S(a[2])) >>
    [] h = "pb_config_out"  -> << "PO,B," \o S(a[1]) \o "," \o S(a[2]), "PD,B," \o S(a[1]) \o ",0" >>
    [] h = "dio_b_config"   -> << "PO,B," \o S(a[1]) \o "," \o S(a[2]), "PD,B," \o S(a[1]) \o "," \o S(a[3]) >>
    [] h = "pb_set"         -> << "PO,B," \o S(a[1]) \o "," \o S(a[2]) >>
    [] h = "dio_b_read"     -> << "PI,B," \o S(a[1]) >>
    [] h = "toggle_pen"     -> << "TP" >>
    [] h = "pen_pos_down"   -> << "SC,5," \o S(a[1]) >>
    [] h = "pen_pos_up"     -> << "SC,4," \o S(a[1]) >>
    [] h = "pen_rate_down"  -> << "SC,12," \o S(a[1]) >>
    [] h = "pen_rate_up"    -> << "SC,11," \o S(a[1]) >>
    [] h = "set_layer"      -> << "SL," \o S(a[1]) >>
    [] h = "query_layer"    -> << "QL" >>
    [] h = "query_pen_up"   -> << "QP" >>
    [] h = "query_button"   -> << "QB" >>
    [] h = "query_steps"    -> << "QS" >>
    [] h = "servo_timeout"  -> << "SR," \o S(a[1]) \o (IF a[2] = NoneI THEN "" ELSE "," \o S(a[2])) >>
    [] h = "clear_steps"    -> << "CS" >>
    [] h = "clear_accumulators" -> << "T3,1,0,0,0,0,0,0,3" >>
    [] h = "var_write"      -> << "SL," \o S(a[1]) \o "," \o S(a[2]) >>
    [] h = "var_read"       -> << "QL," \o S(a[1]) >>
    [] h = "var_write_int32" -> [k \in 1..4 |-> "SL," \o S(Int32Byte(a[1], k - 1)) \o "," \o S(a[2] + k - 1)]
    [] h = "var_read_int32" -> [k \in 1..4 |-> "QL," \o S(a[1] + k - 1)]
    [] h = "query_voltage"  -> << "QC" >>
    [] h = "query_current"  -> << "QC" >>
    [] h = "motors_query_enabled" -> << "QE" >>
    [] h = "query_nickname" -> << "QT" >>
    [] h = "reboot"         -> << "RB" >>
    [] h = "bootload"       -> << "BL" >>
    [] h = "query_statusbyte" -> << "QG" >>
    [] h = "write_nickname" -> << "ST,Lab" >>                        \* the harness passes the name "Lab"
    \* legacy motor-state query: the five driver pins through PI (enable 1, enable 2, MS1, MS2, MS3), as its docstring says
    [] h = "query_motors_pins" -> << "PI,E,0", "PI,C,1", "PI,E,2", "PI,E,1", "PI,A,6" >>

\* EBB3 motors_enable(r1, r2), which needs the board's QE answer when only motor 2 is requested.
\* qe = <<res1, res2>> as motors_query_enabled decodes them (only used when c1 = 0 # c2)
MotorsEnableLines(r1, r2, qe) ==
  LET c1 == Clamp05(r1) c2 == Clamp05(r2)
      one == (c1 # c2) /\ (c1 * c2 = 0)
      old == IF qe[1] # 0 THEN qe[1] ELSE IF qe[2] # 0 THEN qe[2] ELSE 0 IN
  (IF one THEN << "CU,50,0" >> ELSE <<>>)
  \o (IF c1 = 0 /\ c2 # 0 THEN << "QE" >> \o (IF old # c2 THEN << "EM," \o S(c2) \o "," \o S(c2) >> ELSE <<>>) ELSE <<>>)
  \o << "EM," \o S(c1) \o "," \o S(c2) >>
=============================================================================
