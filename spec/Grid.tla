-------------------------------- MODULE Grid --------------------------------
(* E1/G machine for C13: build an index over every small path set, remove      *)
(* paths in every order; at every reachable state the impl-shaped scan must    *)
(* satisfy the abstract NearestOK for every query point of the query lattice.  *)
EXTENDS GridOps, TLC
CONSTANTS LatN,        \* path ends on 0..LatN
          QLo, QHi,    \* query lattice (0-QLo)..QHi
          MaxPaths, Bins
VARIABLES paths, n, rev, live, lookup, phase
vars == <<paths, n, rev, live, lookup, phase>>
Pt == (0..LatN) \X (0..LatN)
QPts == ((0 - QLo)..QHi) \X ((0 - QLo)..QHi)
\* the path list is built up by actions (so that TLC's workers share the enumeration), then indexed
Init == paths = <<>> /\ n = 0 /\ rev = FALSE /\ live = {} /\ lookup = <<>> /\ phase = "add"
AddPath == /\ phase = "add" /\ Len(paths) < MaxPaths
           /\ \E s \in Pt, e \in Pt : paths' = Append(paths, <<s, e>>)
           /\ UNCHANGED <<n, rev, live, lookup, phase>>
Build == /\ phase = "add" /\ Len(paths) >= 1
         /\ \E nn \in Bins, rv \in BOOLEAN :
              /\ NonZeroExtent(paths, rv)
              /\ n' = nn /\ rev' = rv /\ live' = 1..Len(paths) /\ phase' = "live"
              /\ lookup' = [id \in Ids(paths, rv) |-> CellFloor(PointOf(id, paths), paths, rv, nn)]
         /\ UNCHANGED paths
Remove(p) == /\ phase = "live" /\ p \in live /\ live' = live \ {p} /\ UNCHANGED <<paths, n, rev, lookup, phase>>
Next == AddPath \/ Build \/ \E p \in 1..MaxPaths : Remove(p)
Spec == Init /\ [][Next]_vars
Live == phase = "live"

AdjacentsAreGeometric == Live => \A c \in 0..(n * n - 1) :
   /\ SeqToSet(Adjacents(c, n)) = Block(c, n)
   /\ Len(Adjacents(c, n)) = Cardinality(Block(c, n))
LookupAdmissible == Live => \A id \in Ids(paths, rev) : lookup[id] \in CellsOf(PointOf(id, paths), paths, rev, n)
Known == [id \in Ids(paths, rev) |-> {lookup[id]}]
ScanRefinesNearestOK == Live => \A q \in QPts :
   NearestOK(q, ScanNearest(q, paths, rev, n, live, lookup), paths, rev, n, live, Known)
\* the statement's "in particular": the true nearest end whenever one lies within one cell width of an in-grid query
\* (checked in its weak form: if the globally nearest live end is in the query's 3x3 block, the scan returns an end at that distance)
TrueNearestWhenClose == Live => \A q \in QPts :
   LET L == LiveIds(paths, rev, live) r == ScanNearest(q, paths, rev, n, live, lookup) IN
   (L # {} /\ \E e \in L : (\A f \in L : D2(q, PointOf(e, paths)) <= D2(q, PointOf(f, paths))) /\ lookup[e] \in Block(CellFloor(q, paths, rev, n), n))
     => \A f \in L : D2(q, PointOf(r, paths)) <= D2(q, PointOf(f, paths))
=============================================================================
