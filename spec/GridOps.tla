------------------------------ MODULE GridOps ------------------------------
(* C13 - spatial_grid.Index: nearest() after any removals.                     *)
(* Paths are pairs of integer lattice points <<start, end>>.  End ids follow    *)
(* the code: id k (0-based) = start of path k, id P + k = end of path k (only   *)
(* when reversal is enabled).  Cells are computed exactly (the padded extent    *)
(* is rational); a point exactly on a cell border may be binned on either side  *)
(* by floating point, so it has two admissible cells per axis.                  *)
EXTENDS Integers, Sequences, FiniteSets

MinS(S) == CHOOSE x \in S : \A y \in S : x <= y
MaxS(S) == CHOOSE x \in S : \A y \in S : x >= y
FloorDiv(a, d) == IF a >= 0 THEN a \div d ELSE 0 - (((0 - a) + d - 1) \div d)      \* d > 0
ClampI(v, lo, hi) == IF v < lo THEN lo ELSE IF v > hi THEN hi ELSE v
D2(p, q) == (p[1] - q[1]) * (p[1] - q[1]) + (p[2] - q[2]) * (p[2] - q[2])

P(paths) == Len(paths)
\* the points that define the extent: all starts, and all ends when reversal is on
ExtPts(paths, rev) == {paths[k][1] : k \in 1..Len(paths)} \cup (IF rev THEN {paths[k][2] : k \in 1..Len(paths)} ELSE {})
Ext(paths, rev) ==
  LET pts == ExtPts(paths, rev)
      xs == {p[1] : p \in pts} ys == {p[2] : p \in pts} IN
  [xlo |-> MinS(xs), ylo |-> MinS(ys), xr |-> MaxS(xs) - MinS(xs), yr |-> MaxS(ys) - MinS(ys)]
NonZeroExtent(paths, rev) == Len(paths) >= 1 /\ LET e == Ext(paths, rev) IN e.xr + e.yr > 0
\* exact bin coordinate of x:  (x - (lo - shim)) / bin_size  with shim = (xr + yr)/200, bin_size = (r + 2 shim)/n
\*   = n (200 (x - lo) + tot) / (200 r + 2 tot)          as <<numerator, denominator>>
BinQ(x, lo, r, tot, n) == <<n * (200 * (x - lo) + tot), 200 * r + 2 * tot>>
Cells1(x, lo, r, tot, n) ==                      \* admissible bins of one coordinate, clamped to 0..n-1
  LET q == BinQ(x, lo, r, tot, n) f == FloorDiv(q[1], q[2]) IN
  IF q[1] % q[2] = 0 THEN {ClampI(f, 0, n - 1), ClampI(f - 1, 0, n - 1)} ELSE {ClampI(f, 0, n - 1)}
Floor1(x, lo, r, tot, n) == LET q == BinQ(x, lo, r, tot, n) IN ClampI(FloorDiv(q[1], q[2]), 0, n - 1)
CellsOf(pt, paths, rev, n) ==
  LET e == Ext(paths, rev) tot == e.xr + e.yr IN
  {cx + n * cy : cx \in Cells1(pt[1], e.xlo, e.xr, tot, n), cy \in Cells1(pt[2], e.ylo, e.yr, tot, n)}
CellFloor(pt, paths, rev, n) ==
  LET e == Ext(paths, rev) tot == e.xr + e.yr IN
  Floor1(pt[1], e.xlo, e.xr, tot, n) + n * Floor1(pt[2], e.ylo, e.yr, tot, n)
Block(c, n) == {cx + n * cy : cx \in {x \in 0..(n - 1) : x - (c % n) \in {-1, 0, 1}},
                              cy \in {y \in 0..(n - 1) : y - (c \div n) \in {-1, 0, 1}}}

\* end ids and their points
Ids(paths, rev) == 0..((IF rev THEN 2 * Len(paths) ELSE Len(paths)) - 1)
PathOf(id, paths) == IF id >= Len(paths) THEN id - Len(paths) + 1 ELSE id + 1          \* 1-based path number
PointOf(id, paths) == IF id >= Len(paths) THEN paths[id - Len(paths) + 1][2] ELSE paths[id + 1][1]
LiveIds(paths, rev, live) == {id \in Ids(paths, rev) : PathOf(id, paths) \in live}

(* ---------------- Abstract: what nearest() may return ---------------- *)
\* cellsOf[id] = admissible cells of each end (a singleton where the real object's lookup is known and admissible)
\* None is -1
NearestOK(q, r, paths, rev, n, live, cellsOf) ==
  LET L == LiveIds(paths, rev, live)
      d(id) == D2(q, PointOf(id, paths)) IN
  IF L = {} THEN r = -1
  ELSE /\ r \in L
       /\ \E c \in CellsOf(q, paths, rev, n) :
            LET blk == Block(c, n)
                must == {id \in L : cellsOf[id] \subseteq blk}
                may == {id \in L : cellsOf[id] \cap blk # {}} IN
            IF must # {} THEN \A e \in must : d(r) <= d(e)
            ELSE \/ \A e \in L : d(r) <= d(e)                  \* neighbourhood empty: globally closest
                 \/ \E e \in may : d(r) <= d(e)                \* a border end counted inside
AdmissibleCells(paths, rev, n) == [id \in Ids(paths, rev) |-> CellsOf(PointOf(id, paths), paths, rev, n)]

(* ---------------- Impl-shaped: grid, adjacents, the scan ---------------- *)
Adjacents(i, n) ==      \* the order find_adjacents builds
  LET x == i % n y == i \div n mx == n - 1 IN
  <<i>> \o (IF x > 0 THEN <<i - 1>> \o (IF y > 0 THEN <<i - n - 1>> ELSE <<>>) \o (IF y < mx THEN <<i + n - 1>> ELSE <<>>) ELSE <<>>)
        \o (IF x < mx THEN <<i + 1>> \o (IF y > 0 THEN <<i - n + 1>> ELSE <<>>) \o (IF y < mx THEN <<i + n + 1>> ELSE <<>>) ELSE <<>>)
        \o (IF y > 0 THEN <<i - n>> ELSE <<>>) \o (IF y < mx THEN <<i + n>> ELSE <<>>)
SeqToSet(s) == {s[k] : k \in 1..Len(s)}
\* insertion order of ids into cells: path 0 start, path 0 end, path 1 start, ...
InsertOrder(paths, rev) == IF rev THEN [k \in 1..(2 * Len(paths)) |-> IF k % 2 = 1 THEN (k - 1) \div 2 ELSE Len(paths) + (k - 2) \div 2]
                           ELSE [k \in 1..Len(paths) |-> k - 1]
\* ids in cell c, in list order, restricted to live paths
CellList(c, paths, rev, n, live, lookup) ==
  LET ord == InsertOrder(paths, rev) IN
  SelectSeq(ord, LAMBDA id : lookup[id] = c /\ PathOf(id, paths) \in live)
RECURSIVE ScanCells(_, _, _, _, _, _, _, _, _)
\* fold over a sequence of cells: state <<best_dist (or -1 = inf), best_index (or -1)>>
RECURSIVE ScanIds(_, _, _, _, _)
ScanIds(ids, k, q, paths, st) ==
  IF k > Len(ids) THEN st
  ELSE LET dd == D2(q, PointOf(ids[k], paths)) IN
       ScanIds(ids, k + 1, q, paths, IF st[1] = -1 \/ dd < st[1] THEN <<dd, ids[k]>> ELSE st)
ScanCells(cells, k, q, paths, rev, n, live, lookup, st) ==
  IF k > Len(cells) THEN st
  ELSE ScanCells(cells, k + 1, q, paths, rev, n, live, lookup,
                 ScanIds(CellList(cells[k], paths, rev, n, live, lookup), 1, q, paths, st))
ScanNearest(q, paths, rev, n, live, lookup) ==
  LET c0 == CellFloor(q, paths, rev, n)
      nb == Adjacents(c0, n)
      s1 == ScanCells(nb, 1, q, paths, rev, n, live, lookup, <<-1, -1>>) IN
  IF s1[2] > 0 THEN s1[2]                                    \* `if best_index:` - None and id 0 both fall through
  ELSE LET rest == SelectSeq([k \in 1..(n * n) |-> k - 1], LAMBDA c : c \notin SeqToSet(nb)) IN
       ScanCells(rest, 1, q, paths, rev, n, live, lookup, s1)[2]
=============================================================================
