----------------------------- MODULE GridTrace -----------------------------
(* Code -> spec for C13: each event is one complete history of a real          *)
(* spatial_grid.Index (construction, the object's own lookup table, then an    *)
(* interleaving of nearest() queries with their results and remove_path()       *)
(* calls), judged op by op with the abstract NearestOK.                         *)
EXTENDS GridOps, Json, IOUtils, TLC
Trace == ndJsonDeserialize(IOEnv.TRACE_FILE)
VARIABLES i, verdict
Paths(e) == [k \in 1..Len(e.paths) |-> <<<<e.paths[k][1][1], e.paths[k][1][2]>>, <<e.paths[k][2][1], e.paths[k][2][2]>>>>]
\* ops: <<"q", x, y, result (-1 = None)>> | <<"rm", path (0-based)>>
RECURSIVE Walk(_, _, _, _, _, _, _)
Walk(ops, k, ps, rev, n, live, cells) ==
  IF k > Len(ops) THEN "ok"
  ELSE LET op == ops[k] IN
       IF op[1] = "rm" THEN Walk(ops, k + 1, ps, rev, n, live \ {op[2] + 1}, cells)
       ELSE IF NearestOK(<<op[2], op[3]>>, op[4], ps, rev, n, live, cells)
            THEN Walk(ops, k + 1, ps, rev, n, live, cells)
            ELSE LET L == LiveIds(ps, rev, live) IN
                 IF L = {} THEN "nearest.none_iff_no_path_remains@" \o ToString(k)
                 ELSE IF op[4] = -1 THEN "nearest.none_iff_no_path_remains@" \o ToString(k)
                 ELSE IF op[4] \notin L THEN "nearest.returns_live_end@" \o ToString(k)
                 ELSE "nearest.no_neighbouring_end_beats_it@" \o ToString(k)
Judge(e) ==
  LET ps == Paths(e) IN
  IF ~NonZeroExtent(ps, e.rev) \/ e.n < 1 THEN "skip"
  ELSE LET adm == AdmissibleCells(ps, e.rev, e.n)
           known == Len(e.lookup) = Cardinality(Ids(ps, e.rev)) /\ \A id \in Ids(ps, e.rev) : e.lookup[id + 1] \in adm[id]
           cells == IF known THEN [id \in Ids(ps, e.rev) |-> {e.lookup[id + 1]}] ELSE adm IN
       Walk(e.ops, 1, ps, e.rev, e.n, 1..Len(ps), cells)
TInit == i = 0 /\ verdict = "init"
TNext == i < Len(Trace) /\ i' = i + 1 /\ verdict' = Judge(Trace[i + 1])
TSpec == TInit /\ [][TNext]_<<i, verdict>>
=============================================================================
