SPECIFICATION Spec
CONSTANTS
  LatN = 2
  QLo = 1
  QHi = 3
  MaxPaths = 2
  Bins = {3}
INVARIANT AdjacentsAreGeometric
INVARIANT LookupAdmissible
INVARIANT ScanRefinesNearestOK
INVARIANT TrueNearestWhenClose
CHECK_DEADLOCK FALSE
