SPECIFICATION Spec
CONSTANTS
  LatN = 1
  QLo = 1
  QHi = 2
  MaxPaths = 3
  Bins = {2, 3, 4}
INVARIANT AdjacentsAreGeometric
INVARIANT LookupAdmissible
INVARIANT ScanRefinesNearestOK
INVARIANT TrueNearestWhenClose
CHECK_DEADLOCK FALSE
