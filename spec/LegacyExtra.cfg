SPECIFICATION Spec
INVARIANT ReturnsPortIffEBB
INVARIANT AtMostTwoProbes
INVARIANT ClosedWhenRejected
INVARIANT DecodeRefinesTable
CHECK_DEADLOCK FALSE
