----------------------------- MODULE LegacyExtra -----------------------------
(* Growth beyond the listed properties (DESIGN section 7): two more pieces of  *)
(* the function-style legacy layer.                                            *)
(*  1. ebb_serial.testPort: open, flush, probe 'v' up to twice, accept iff the *)
(*     reply starts with "EBB", close the port when rejecting.                  *)
(*  2. ebb_motion.query_enable_motors: five PI pin reads decoded into          *)
(*     (res_1, res_2) by the stepper driver's microstep truth table.            *)
(* Results of these stages are reported as EXTENDED observations in the C07     *)
(* evidence; they never produce a VIOLATION of a listed property.               *)
EXTENDS Integers, Sequences, TLC
Devices == {"ebb_first", "ebb_second", "non_ebb", "silent", "unopenable", "raise_on_write", "raise_on_read"}
(* ---------------- testPort: impl-shaped machine ---------------- *)
VARIABLES dev, pc, probes, open, closed, ret, pins, dec
vars == <<dev, pc, probes, open, closed, ret, pins, dec>>
Pins == [en1 : BOOLEAN, en2 : BOOLEAN, ms1 : BOOLEAN, ms2 : BOOLEAN, ms3 : BOOLEAN]      \* TRUE = pin reads 1
\* the code's decode (elif chain)
DecodeImpl(p) ==
  LET r == IF p.ms1 /\ p.ms2 /\ p.ms3 THEN 1 ELSE IF p.ms1 /\ p.ms2 THEN 2 ELSE IF p.ms2 THEN 3 ELSE IF p.ms1 THEN 4 ELSE 5 IN
  <<IF ~p.en1 THEN r ELSE 0, IF ~p.en2 THEN r ELSE 0>>                \* enable pins are active low
\* the driver's documented truth table (MS1, MS2, MS3): LLL full, HLL 1/2, LHL 1/4, HHL 1/8, HHH 1/16; other combinations undocumented
Documented(p) == <<p.ms1, p.ms2, p.ms3>> \in {<<FALSE, FALSE, FALSE>>, <<TRUE, FALSE, FALSE>>, <<FALSE, TRUE, FALSE>>, <<TRUE, TRUE, FALSE>>, <<TRUE, TRUE, TRUE>>}
TableRes(p) == CASE <<p.ms1, p.ms2, p.ms3>> = <<FALSE, FALSE, FALSE>> -> 5
                 [] <<p.ms1, p.ms2, p.ms3>> = <<TRUE, FALSE, FALSE>> -> 4
                 [] <<p.ms1, p.ms2, p.ms3>> = <<FALSE, TRUE, FALSE>> -> 3
                 [] <<p.ms1, p.ms2, p.ms3>> = <<TRUE, TRUE, FALSE>> -> 2
                 [] OTHER -> 1
DecodeOK(p, r) == Documented(p) => r = <<IF ~p.en1 THEN TableRes(p) ELSE 0, IF ~p.en2 THEN TableRes(p) ELSE 0>>

Init == /\ dev \in Devices /\ pins \in Pins /\ dec = DecodeImpl(pins)
        /\ pc = "open" /\ probes = 0 /\ open = FALSE /\ closed = FALSE /\ ret = "none"
Answers(d, n) == (d = "ebb_first" /\ n = 1) \/ (d \in {"ebb_first", "ebb_second"} /\ n = 2)
Open == /\ pc = "open"
        /\ IF dev = "unopenable" THEN pc' = "done" /\ ret' = "None" /\ UNCHANGED open
           ELSE open' = TRUE /\ pc' = "probe" /\ UNCHANGED ret
        /\ UNCHANGED <<dev, probes, closed, pins, dec>>
Probe == /\ pc = "probe"
         /\ IF dev = "raise_on_write" THEN pc' = "done" /\ ret' = "None" /\ UNCHANGED probes          \* except SerialException: log, None
            ELSE /\ probes' = probes + 1
                 /\ IF dev = "raise_on_read" THEN pc' = "done" /\ ret' = "None"
                    ELSE IF Answers(dev, probes + 1) THEN pc' = "done" /\ ret' = "port"
                    ELSE IF probes + 1 < 2 THEN pc' = "probe" /\ UNCHANGED ret
                    ELSE pc' = "close" /\ UNCHANGED ret
         /\ UNCHANGED <<dev, open, closed, pins, dec>>
Close == /\ pc = "close" /\ closed' = TRUE /\ ret' = "None" /\ pc' = "done" /\ UNCHANGED <<dev, probes, open, pins, dec>>
Next == Open \/ Probe \/ Close
Spec == Init /\ [][Next]_vars
ReturnsPortIffEBB == (pc = "done") => ((ret = "port") <=> dev \in {"ebb_first", "ebb_second"})
AtMostTwoProbes == probes <= 2
ClosedWhenRejected == (pc = "done" /\ dev \in {"non_ebb", "silent"}) => closed
DecodeRefinesTable == DecodeOK(pins, dec)
=============================================================================
