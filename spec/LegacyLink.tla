------------------------------ MODULE LegacyLink ------------------------------
(* Impl-shaped machine of ebb_serial.query()/command(): one action per port     *)
(* operation (write, first read, each retry read, trailing-OK reads, the Err:   *)
(* test, return), against the LegacyOps board. The environment fixes a plan per *)
(* request (kind, delays, fault); hist records the plans = a replayable script. *)
EXTENDS LegacyOps, TLC
CONSTANTS MaxReq, R,          \* retry bound of the code (100); small in exhaustive configs
          Delays,             \* offered delays before a line
          MaxFaults,
          DecodeOnRetry       \* FALSE: pinned code (query's retry reads are not decoded)
VARIABLES hist, rxq, pc, retries, resp, wrote, ret, nfault, dataSeen
vars == <<hist, rxq, pc, retries, resp, wrote, ret, nfault, dataSeen>>

Plan == hist[Len(hist)]
N == Len(hist)
Str(tok) == [typ |-> "str", tok |-> tok]

Init == /\ hist = <<>> /\ rxq = <<>> /\ pc = "idle" /\ retries = 0 /\ resp = Str(Empty)
        /\ wrote = 0 /\ ret = "none" /\ nfault = 0 /\ dataSeen = FALSE

BeginReq ==
  /\ pc = "idle" /\ Len(hist) < MaxReq
  /\ \E kind \in {"cmd", "qok", "qnook", "noport", "notext"}, d1 \in Delays, d2 \in Delays, f \in (Faults \ {"rkraise"}), bl \in BOOLEAN :
       /\ (bl => (kind \in {"qok", "qnook"} /\ f = "none" /\ d2 = 0))
       /\ (kind \in {"noport", "notext"}) => (d1 = 0 /\ d2 = 0 /\ f = "none")
       /\ (kind # "qok") => d2 = 0
       /\ (f # "none") => (nfault < MaxFaults /\ d1 \in {0, 1} /\ d2 = 0)
       /\ (f = "rNraise") => kind = "qok"
       /\ (f = "r2raise") => d1 = 1              \* the exception hits the first RETRY read (after one timeout)
       /\ hist' = Append(hist, [kind |-> kind, d1 |-> d1, d2 |-> d2, fault |-> f, blank |-> bl])
       /\ nfault' = IF f = "none" THEN nfault ELSE nfault + 1
       /\ pc' = IF kind \in {"noport", "notext"} THEN "ret" ELSE "write"
  /\ retries' = 0 /\ resp' = Str(Empty) /\ wrote' = 0 /\ ret' = "none" /\ dataSeen' = FALSE
  /\ UNCHANGED rxq

Write ==
  /\ pc = "write" /\ wrote' = wrote + 1
  /\ IF Plan.fault = "wraise" THEN pc' = "caught" /\ UNCHANGED rxq
     ELSE pc' = "read1" /\ rxq' = rxq \o Enq(Plan.kind, N, Plan.d1, Plan.d2, Plan.fault, Plan.blank)
  /\ UNCHANGED <<hist, retries, resp, ret, nfault, dataSeen>>

\* first read: decoded
Read1 ==
  /\ pc = "read1"
  /\ IF Plan.fault = "r1raise" THEN pc' = "caught" /\ UNCHANGED <<rxq, resp>>
     ELSE LET r == ReadQ(rxq) IN rxq' = r[2] /\ resp' = Str(r[1]) /\ pc' = "loop1"
  /\ retries' = 0 /\ UNCHANGED <<hist, wrote, ret, nfault, dataSeen>>

\* retry loop of the first line: `while len(response) == 0 and n < R`
Loop1 ==
  /\ pc = "loop1"
  /\ IF resp.tok = Empty /\ retries < R /\ Plan.fault = "r2raise" /\ retries = 0
     THEN pc' = "caught" /\ UNCHANGED <<rxq, retries, resp>>      \* readline() raises inside the retry loop
     ELSE IF resp.tok = Empty /\ retries < R
     THEN LET r == ReadQ(rxq) IN
          /\ rxq' = r[2] /\ retries' = retries + 1 /\ pc' = "loop1"
          /\ resp' = [typ |-> IF DecodeOnRetry \/ Plan.kind = "cmd" THEN "str" ELSE "bytes", tok |-> r[1]]
     ELSE /\ pc' = IF Plan.kind = "qok" THEN "read2" ELSE "check"
          /\ UNCHANGED <<rxq, retries, resp>>
  /\ UNCHANGED <<hist, wrote, ret, nfault, dataSeen>>

\* OK-terminated queries: read (and discard) the trailing line, same retry discipline
Read2 ==
  /\ pc = "read2"
  /\ IF Plan.fault = "rNraise" THEN pc' = "caught" /\ UNCHANGED <<rxq, dataSeen>>
     ELSE LET r == ReadQ(rxq) IN rxq' = r[2] /\ dataSeen' = (r[1] # Empty) /\ pc' = "loop2"
  /\ retries' = 0 /\ UNCHANGED <<hist, resp, wrote, ret, nfault>>
Loop2 ==
  /\ pc = "loop2"
  /\ IF ~dataSeen /\ retries < R
     THEN LET r == ReadQ(rxq) IN rxq' = r[2] /\ dataSeen' = (r[1] # Empty) /\ retries' = retries + 1 /\ pc' = "loop2"
     ELSE pc' = "check" /\ UNCHANGED <<rxq, dataSeen, retries>>
  /\ UNCHANGED <<hist, resp, wrote, ret, nfault>>

\* except (SerialException, IOError, RuntimeError, OSError): log, fall through
Caught == /\ pc = "caught" /\ pc' = "check" /\ UNCHANGED <<hist, rxq, retries, resp, wrote, ret, nfault, dataSeen>>

\* query: `'Err:' in response` needs text; command: classification of the reply, returns None
Check ==
  /\ pc = "check"
  /\ IF Plan.kind = "cmd" THEN pc' = "ret" /\ ret' = "None"
     ELSE IF resp.typ = "bytes" THEN pc' = "raised" /\ ret' = "TypeError"
     ELSE pc' = "ret" /\ ret' = resp.tok
  /\ UNCHANGED <<hist, rxq, retries, resp, wrote, nfault, dataSeen>>

EndReq == /\ pc = "ret" /\ pc' = "idle" /\ UNCHANGED <<hist, rxq, retries, resp, wrote, ret, nfault, dataSeen>>

Next == BeginReq \/ Write \/ Read1 \/ Loop1 \/ Read2 \/ Loop2 \/ Caught \/ Check \/ EndReq
Spec == Init /\ [][Next]_vars

(* ---------------- Abstract properties (the statement) ---------------- *)
Conforming == \A k \in 1..Len(hist) : PlanConforming(hist[k], R)
IsReal  == Plan.kind \in {"cmd", "qok", "qnook"}
IsQuery == Plan.kind \in {"qok", "qnook"}
NoRaise        == pc # "raised"
WriteOnce      == pc = "ret" => wrote = (IF IsReal THEN 1 ELSE 0)
NoOp           == (pc = "ret" /\ ~IsReal) => (ret = "none" /\ wrote = 0)
QueryReturnsText == (pc = "ret" /\ IsQuery) => resp.typ = "str"
ReturnsOwnLine == (pc = "ret" /\ IsQuery /\ Conforming) => ret = DataTok(N, Plan.blank)
Aligned        == (pc = "ret" /\ Conforming) => rxq = <<>>
\* the data line arrived, then the read of the trailing OK raised: the data line is still this request's answer
DataThenFault == (pc = "ret" /\ IsQuery /\ Plan.fault = "rNraise" /\ Plan.d1 <= R /\ \A k \in 1..(N - 1) : PlanConforming(hist[k], R))
                    => ret = DataTok(N, Plan.blank)
\* "or an empty string when nothing arrived"
EmptyWhenSilent == (pc = "ret" /\ IsQuery /\ Plan.fault \in {"silent", "wraise", "r1raise"} /\ rxq = <<>>
                    /\ \A k \in 1..(N - 1) : PlanConforming(hist[k], R)) => ret = Empty
(* ---- liveness: every request that was begun returns (bounded retries, every fault caught) ---- *)
FairSpec == Spec /\ WF_vars(Write \/ Read1 \/ Loop1 \/ Read2 \/ Loop2 \/ Caught \/ Check \/ EndReq)
EveryRequestReturns == (pc # "idle") ~> (pc = "idle")
=============================================================================
