SPECIFICATION FairSpec
CONSTANTS
  MaxReq = 2
  R = 100
  Delays = {0,1,99,100,101}
  MaxFaults = 0
  DecodeOnRetry = TRUE
CHECK_DEADLOCK FALSE
PROPERTY EveryRequestReturns
