SPECIFICATION Spec
CONSTANTS
  MaxReq = 1
  R = 3
  Delays = {0,1}
  MaxFaults = 0
  DecodeOnRetry = FALSE
INVARIANT NoRaise
INVARIANT WriteOnce
INVARIANT NoOp
INVARIANT QueryReturnsText
INVARIANT ReturnsOwnLine
INVARIANT Aligned
INVARIANT EmptyWhenSilent
CHECK_DEADLOCK FALSE
