SPECIFICATION Spec
CONSTANTS
  MaxReq = 2
  R = 100
  Delays = {0,1,99,100,101}
  MaxFaults = 0
  DecodeOnRetry = TRUE
INVARIANT NoRaise
INVARIANT WriteOnce
INVARIANT NoOp
INVARIANT QueryReturnsText
INVARIANT ReturnsOwnLine
INVARIANT Aligned
INVARIANT EmptyWhenSilent
INVARIANT DataThenFault
CHECK_DEADLOCK FALSE
