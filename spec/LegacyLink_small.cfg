SPECIFICATION Spec
CONSTANTS
  MaxReq = 3
  R = 3
  Delays = {0,1,2,3,4}
  MaxFaults = 1
  DecodeOnRetry = TRUE
INVARIANT NoRaise
INVARIANT WriteOnce
INVARIANT NoOp
INVARIANT QueryReturnsText
INVARIANT ReturnsOwnLine
INVARIANT Aligned
INVARIANT EmptyWhenSilent
INVARIANT DataThenFault
CHECK_DEADLOCK FALSE
