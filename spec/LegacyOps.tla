------------------------------ MODULE LegacyOps ------------------------------
(* C07 - legacy serial primitives ebb_serial.query / ebb_serial.command.       *)
(* Device model of a legacy-firmware board and the run-length reply queue.      *)
EXTENDS Integers, Sequences

\* queries that answer with ONE line (no trailing OK), from the EBB documentation
NoOKNames == {"a", "i", "mr", "pi", "qm", "qg", "v"}
KindOfQuery(lname) == IF lname \in NoOKNames THEN "qnook" ELSE "qok"

\* rkraise: the k-th read of the request raises (any position; V only) - the board itself answers as documented
Faults == {"none", "wraise", "r1raise", "r2raise", "rNraise", "rkraise", "errline", "silent"}
Empty == <<"empty">>

\* what the board enqueues when request number n is written. An item is a line token
\* preceded by e empty reads (timeouts). d1/d2: delay before the first/second line.
\* blank: the data line of a query is only a line ending (e.g. QT on a board without a nickname): still a line, still this request's data
DataTok(n, blank) == IF blank THEN <<"blank", n>> ELSE <<"data", n>>
Enq(kind, n, d1, d2, fault, blank) ==
  IF fault \in {"silent", "wraise"} THEN <<>>
  ELSE IF fault = "errline" THEN << [e |-> d1, tok |-> <<"err", n>>] >>
  ELSE IF kind = "cmd" THEN << [e |-> d1, tok |-> <<"ok", n>>] >>
  ELSE IF kind = "qnook" THEN << [e |-> d1, tok |-> DataTok(n, blank)] >>
  ELSE << [e |-> d1, tok |-> DataTok(n, blank)], [e |-> d2, tok |-> <<"ok", n>>] >>

\* one readline(): <<token returned, queue afterwards>>
ReadQ(q) == IF q = <<>> THEN <<Empty, q>>
            ELSE IF Head(q).e > 0 THEN <<Empty, <<[Head(q) EXCEPT !.e = @ - 1]>> \o Tail(q)>>
            ELSE <<Head(q).tok, Tail(q)>>

\* a plan is conforming when the board answers as documented within the retry budget
PlanConforming(p, R) ==
  /\ p.fault = "none"
  /\ p.kind \in {"cmd", "qok", "qnook"} => p.d1 <= R
  /\ p.kind = "qok" => p.d2 <= R
=============================================================================
