---------------------------- MODULE LegacySession ----------------------------
(* Growth beyond the listed properties (DESIGN sections 7 and 10.1b): the        *)
(* life cycle of a function-style (legacy) session, composed from pieces that    *)
(* the listed checks look at separately:                                          *)
(*    discovery (C19: findPort / find_named_ebb)                                   *)
(*      -> testPort (open, flush, probe 'v' at most twice, reject = close)         *)
(*      -> openPort / open_named_port hand the port object to the caller           *)
(*      -> closePort (None is a no-op, a raising close() is swallowed),            *)
(*    plus queryVersion on the port in hand (one 'V' request, the identification   *)
(*    line back; None without a port) and list_port_info (three strings per port, *)
(*    None for an empty bus).                                                      *)
(* One action per step of the code, so that a handle that is opened and neither    *)
(* returned nor closed is visible as a state (`Leaked`).  The environment is a     *)
(* bus of at most MaxPorts ports: what the OS says about each (descriptor class,   *)
(* serial-number tag) and what is behind it (device kind).                         *)
(* Everything here is replayed into the real functions by harness/legacy_session;  *)
(* differences are EXTENDED observations of C19, never violations.                 *)
EXTENDS Integers, Sequences, FiniteSets, TLC
CONSTANTS MaxPorts, MaxCalls
Classes == {"d", "i", "x"}            \* description starts with the product name / only the hardware id is the board's / foreign
Tags == {"A", "-"}                    \* SER=A in the hardware id, or no tag
Kinds == {"board", "slow", "other", "mute", "noopen", "wfault", "rfault"}
Slot == [c : Classes, tag : Tags, k : Kinds]
Calls == {"openPort", "openA", "openB", "closeLast", "closeNone", "version", "listInfo"}
VARIABLES bus, closeRaises, handles, held, given, pc, call, target, cur, probes, ret, hist
vars == <<bus, closeRaises, handles, held, given, pc, call, target, cur, probes, ret, hist>>
env == <<bus, closeRaises>>

Buses == UNION {[1..n -> Slot] : n \in 0..MaxPorts}
\* ---- discovery, as the statement of C19 has it ----
FirstWith(P(_)) == IF \E i \in 1..Len(bus) : P(bus[i]) THEN CHOOSE i \in 1..Len(bus) : P(bus[i]) /\ \A j \in 1..(i - 1) : ~P(bus[j]) ELSE 0
IsD(s) == s.c = "d"
IsI(s) == s.c \in {"d", "i"}          \* a "d" port of the catalogue carries the board's id as well
HasA(s) == s.tag = "A"
FirstBoard == IF FirstWith(IsD) # 0 THEN FirstWith(IsD) ELSE FirstWith(IsI)
Named(n) == IF n = "A" THEN FirstWith(HasA) ELSE 0      \* nothing on the bus is called B
\* ---- the device's side of the handshake ----
Answers(k, n) == (k = "board" /\ n >= 1) \/ (k = "slow" /\ n >= 2)

Init == /\ bus \in Buses /\ closeRaises \in BOOLEAN
        /\ handles = <<>> /\ held = 0 /\ given = {} /\ pc = "idle" /\ call = "none" /\ target = 0 /\ cur = 0 /\ probes = 0 /\ ret = 0 /\ hist = <<>>
Begin(c) == /\ pc = "idle" /\ Len(hist) < MaxCalls
            /\ c = "version" => (IF held = 0 THEN TRUE ELSE handles[held].open)      \* asking a closed port is outside this model (pyserial raises PortNotOpenError)
            /\ call' = c /\ target' = 0 /\ cur' = 0 /\ probes' = 0 /\ ret' = 0
            /\ pc' = IF c \in {"closeLast", "closeNone"} THEN "closing" ELSE IF c \in {"version", "listInfo"} THEN "asking" ELSE "find"
            /\ UNCHANGED <<env, handles, held, given, hist>>
Find == /\ pc = "find"
        /\ target' = IF call = "openPort" THEN FirstBoard ELSE Named(IF call = "openA" THEN "A" ELSE "B")
        /\ pc' = IF target' = 0 THEN "done" ELSE "open"            \* testPort(None) is None
        /\ UNCHANGED <<env, handles, held, given, call, cur, probes, ret, hist>>
Open == /\ pc = "open"
        /\ IF bus[target].k = "noopen"
           THEN pc' = "done" /\ UNCHANGED <<handles, cur>>          \* serial.Serial raises: logged, None
           ELSE /\ handles' = Append(handles, [slot |-> target, open |-> TRUE])
                /\ cur' = Len(handles) + 1 /\ pc' = "probe"
        /\ UNCHANGED <<env, held, given, call, target, probes, ret, hist>>
Probe == /\ pc = "probe"
         /\ LET k == bus[target].k IN
            IF k = "wfault" THEN pc' = "done" /\ UNCHANGED <<probes, ret, held, given>>           \* NAMED DEVIATION LeakOnFault: the handle stays open
            ELSE /\ probes' = probes + 1
                 /\ IF k = "rfault" THEN pc' = "done" /\ UNCHANGED <<ret, held, given>>           \* same
                    ELSE IF Answers(k, probes + 1) THEN pc' = "done" /\ ret' = cur /\ held' = cur /\ given' = given \cup {cur}
                    ELSE IF probes + 1 < 2 THEN pc' = "probe" /\ UNCHANGED <<ret, held, given>>
                    ELSE pc' = "reject" /\ UNCHANGED <<ret, held, given>>
         /\ UNCHANGED <<env, handles, call, target, cur, hist>>
Reject == /\ pc = "reject"
          /\ handles' = [handles EXCEPT ![cur].open = FALSE]        \* close(); an exception from it is swallowed with the rest
          /\ pc' = "done"
          /\ UNCHANGED <<env, held, given, call, target, cur, probes, ret, hist>>
Closing == /\ pc = "closing"
           /\ IF call = "closeLast" /\ held # 0
              THEN handles' = [handles EXCEPT ![held].open = FALSE]
              ELSE UNCHANGED handles
           /\ pc' = "done"
           /\ UNCHANGED <<env, held, given, call, target, cur, probes, ret, hist>>
\* queryVersion / list_port_info: no state change on this side; the answer is a function of the state
Asking == /\ pc = "asking" /\ pc' = "done"
          /\ UNCHANGED <<env, handles, held, given, call, target, cur, probes, ret, hist>>
Answer == IF call = "version" THEN (IF held = 0 THEN "none" ELSE "line")         \* a port in hand was accepted as a board: it answers 'V'
          ELSE IF call = "listInfo" THEN (IF Len(bus) = 0 THEN "none" ELSE "list")
          ELSE "n/a"
OpenSlots == {i \in 1..Len(handles) : handles[i].open}
Return == /\ pc = "done"
          /\ hist' = Append(hist, [call |-> call, target |-> target, ret |-> IF ret = 0 THEN 0 ELSE handles[ret].slot, probes |-> probes,
                                   nhandles |-> Len(handles), ans |-> Answer, nstrings |-> IF call = "listInfo" THEN 3 * Len(bus) ELSE 0, open |-> OpenSlots, leaked |-> {i \in OpenSlots : i \notin given}, held |-> held])
          /\ pc' = "idle"
          /\ UNCHANGED <<env, handles, held, given, call, target, cur, probes, ret>>
Next == (\E c \in Calls : Begin(c)) \/ Find \/ Open \/ Probe \/ Reject \/ Closing \/ Asking \/ Return
Spec == Init /\ [][Next]_vars
FairSpec == Spec /\ WF_vars(Find \/ Open \/ Probe \/ Reject \/ Closing \/ Asking \/ Return)

\* ---------------- what one would like to be true of a session ----------------
TypeOK == /\ pc \in {"idle", "find", "open", "probe", "reject", "closing", "asking", "done"} /\ held \in 0..Len(handles) /\ probes \in 0..2
\* an open call hands out a port exactly when its discovery target exists and the device behind it answers as a board within two probes
ReturnsBoardOnly == (pc = "done" /\ call \in {"openPort", "openA", "openB"}) =>
                      /\ (ret # 0) <=> (target # 0 /\ bus[target].k \in {"board", "slow"})
                      /\ ret # 0 => handles[ret].slot = target /\ handles[ret].open
OpenPortTargetsFirstBoard == (pc \in {"open", "probe", "reject", "done"} /\ call = "openPort") => target = FirstBoard
NothingCalledB == [][(pc = "find" /\ call = "openB") => (pc' = "done" /\ handles' = handles)]_vars
AtMostTwoProbes == probes <= 2
OneHandlePerOpen == [][Len(handles') <= Len(handles) + 1]_vars
\* resources: a handle that the caller does not hold is closed - EXCEPT after a fault during the handshake (named deviation)
Leaked == {i \in OpenSlots : i \notin given /\ ~(pc \in {"probe", "reject"} /\ i = cur)}
NoLeakExceptOnFault == \A i \in Leaked : bus[handles[i].slot].k \in {"wfault", "rfault"}
\* the strict wish; refuted by TLC on purpose in LegacySession_pinned.cfg (shows the deviation is real in the model)
NoLeak == Leaked = {}
\* only a port that passed the handshake is ever in the caller's hand, so a version request in a session is always answered
HeldIsBoard == held # 0 => bus[handles[held].slot].k \in {"board", "slow"}
CloseCloses == (pc = "done" /\ call = "closeLast" /\ held # 0) => ~handles[held].open
CloseNoneIsNoOp == [][(pc = "closing" /\ call = "closeNone") => handles' = handles]_vars
EveryCallReturns == (pc # "idle") ~> (pc = "idle")
Complete == pc = "idle" /\ Len(hist) = MaxCalls
=============================================================================
