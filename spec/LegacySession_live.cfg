SPECIFICATION FairSpec
CONSTANTS
  MaxPorts = 1
  MaxCalls = 2
PROPERTY EveryCallReturns
CHECK_DEADLOCK FALSE
