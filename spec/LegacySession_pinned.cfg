SPECIFICATION Spec
CONSTANTS
  MaxPorts = 1
  MaxCalls = 1
INVARIANT NoLeak
CHECK_DEADLOCK FALSE
