SPECIFICATION Spec
CONSTANTS
  MaxPorts = 2
  MaxCalls = 2
INVARIANT TypeOK
INVARIANT ReturnsBoardOnly
INVARIANT OpenPortTargetsFirstBoard
INVARIANT AtMostTwoProbes
INVARIANT NoLeakExceptOnFault
INVARIANT CloseCloses
INVARIANT HeldIsBoard
PROPERTY OneHandlePerOpen
PROPERTY CloseNoneIsNoOp
PROPERTY NothingCalledB
CHECK_DEADLOCK FALSE
