----------------------------- MODULE LegacyTrace -----------------------------
(* V direction for C07: port-operation logs recorded from the real             *)
(* ebb_serial.query/command against a scripted FakePort are replayed through    *)
(* the LegacyOps board model and judged with the statement's clauses at every   *)
(* return. One linear behaviour over all traces of a batch; verdicts are total. *)
EXTENDS LegacyOps, Json, IOUtils, TLC
Trace == ndJsonDeserialize(IOEnv.TRACE_FILE)
R == 100
VARIABLES i, rxq, n, plan, wrote, conf, confPrev, verdict
tv == <<i, rxq, n, plan, wrote, conf, confPrev, verdict>>
NoPlan == [kind |-> "noport", d1 |-> 0, d2 |-> 0, fault |-> "none", blank |-> FALSE, body |-> ""]
Tok(t) == IF Len(t) = 1 THEN <<t[1]>> ELSE <<t[1], t[2]>>

PlanOf(e) == [kind |-> e.kind, d1 |-> e.d1, d2 |-> e.d2, fault |-> e.fault, blank |-> e.blank, body |-> e.body]     \* body: the request text without its line ending
KindConsistent(e) ==      \* the harness' command catalogue agrees with the documented table
  \/ e.kind \in {"noport", "notext"}
  \/ e.fn = "command" /\ e.kind = "cmd"
  \/ e.fn = "query" /\ e.kind = KindOfQuery(e.name)

JudgeRet(e) ==
  LET real == plan.kind \in {"cmd", "qok", "qnook"}
      isq  == plan.kind \in {"qok", "qnook"} IN
  IF e.cls = "endless" THEN "Returns"               \* the request never came back (the harness stopped it after 2000 reads)
  ELSE IF e.cls = "raised" THEN "NoRaise"
  ELSE IF wrote # (IF real THEN 1 ELSE 0) THEN "WriteOnce"
  ELSE IF ~real /\ e.cls # "none" THEN "NoOp"
  ELSE IF isq /\ e.cls # "str" THEN "QueryReturnsText"
  ELSE IF isq /\ conf /\ Tok(e.tok) # DataTok(n, plan.blank) THEN "ReturnsOwnLine"
  ELSE IF isq /\ plan.fault = "rNraise" /\ plan.d1 <= R /\ confPrev /\ Tok(e.tok) # DataTok(n, plan.blank) THEN "ReturnsOwnLine"
  ELSE IF conf /\ rxq # <<>> THEN "Aligned"
  ELSE IF isq /\ plan.fault \in {"silent", "wraise", "r1raise"} /\ rxq = <<>> /\ confPrev /\ Tok(e.tok) # Empty THEN "EmptyWhenSilent"
  ELSE "ok"

Step(e) ==
  CASE e.ev = "call" ->
         /\ n' = IF e.first THEN 1 ELSE n + 1
         /\ plan' = PlanOf(e) /\ wrote' = 0
         /\ rxq' = IF e.first THEN <<>> ELSE rxq
         /\ conf' = ((IF e.first THEN TRUE ELSE conf) /\ PlanConforming(PlanOf(e), R))
         /\ confPrev' = (IF e.first THEN TRUE ELSE conf)
         /\ verdict' = IF KindConsistent(e) THEN "ok" ELSE "desync.kind"
    [] e.ev = "w" ->
         /\ rxq' = rxq \o Enq(plan.kind, n, plan.d1, plan.d2, plan.fault, plan.blank)
         /\ wrote' = wrote + 1 /\ UNCHANGED <<n, plan, conf, confPrev>>
         /\ verdict' = IF e.body = plan.body THEN "ok" ELSE "WritesTheRequest"        \* what goes out is the request that was given, not a truncation or a rewrite of it
    [] e.ev = "wx" ->
         /\ wrote' = wrote + 1 /\ verdict' = "ok" /\ UNCHANGED <<rxq, n, plan, conf, confPrev>>
    [] e.ev = "r" ->
         LET r == ReadQ(rxq) IN
         /\ rxq' = r[2] /\ verdict' = IF r[1] = Tok(e.tok) THEN "ok" ELSE "desync.read"
         /\ UNCHANGED <<n, plan, wrote, conf, confPrev>>
    [] e.ev = "rx" -> verdict' = "ok" /\ UNCHANGED <<rxq, n, plan, wrote, conf, confPrev>>
    [] e.ev = "ret" -> verdict' = JudgeRet(e) /\ UNCHANGED <<rxq, n, plan, wrote, conf, confPrev>>

TInit == i = 0 /\ rxq = <<>> /\ n = 0 /\ plan = NoPlan /\ wrote = 0 /\ conf = TRUE /\ confPrev = TRUE /\ verdict = "init"
TNext == i < Len(Trace) /\ i' = i + 1 /\ Step(Trace[i + 1])
TSpec == TInit /\ [][TNext]_tv
=============================================================================
