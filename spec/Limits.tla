------------------------------- MODULE Limits -------------------------------
(* E1/G machine for C18: enumerate the input lattice, evaluate the impl-shaped  *)
(* operators, check that they refine the abstract statement; every "done" state *)
(* is a self-contained test vector (inputs + allowed outputs) for the real code.*)
EXTENDS LimitsOps, TLC
CONSTANTS NegV, PosV, Bnds, Tols
Vals == (0 - NegV)..PosV
VARIABLES kind, in, pc, out
vars == <<kind, in, pc, out>>

Init ==
  /\ pc = "start" /\ out = <<>>
  /\ \/ /\ kind = "1d"
        /\ in \in {<<v, lo, hi, t>> : v \in Vals, lo \in Bnds, hi \in Bnds, t \in Tols}
        /\ in[2] <= in[3]
     \/ /\ kind = "2d"
        /\ in \in {<<x, y, xlo, ylo, xhi, yhi, t>> : x \in Vals, y \in Vals, xlo \in Bnds, ylo \in Bnds,
                                                     xhi \in Bnds, yhi \in Bnds, t \in Tols}
        /\ in[3] <= in[5] /\ in[4] <= in[6]

Eval1 == /\ pc = "start" /\ kind = "1d" /\ pc' = "done"
         /\ out' = [chk |-> CheckLimitsImpl(in[1], in[2], in[3]),
                    tol |-> CheckLimitsTolImpl(in[1], in[2], in[3], in[4]),
                    con |-> ConstrainImpl(in[1], in[2], in[3]),
                    expV |-> Clamp(in[1], in[2], in[3]),
                    expF |-> FlagPlain(in[1], in[2], in[3]),
                    expFT |-> FlagTol(in[1], in[2], in[3], in[4])]
         /\ UNCHANGED <<kind, in>>
Eval2 == /\ pc = "start" /\ kind = "2d" /\ pc' = "done"
         /\ out' = [pib |-> PointInBoundsImpl(in[1], in[2], in[3], in[4], in[5], in[6], in[7]),
                    expIn |-> InBounds2D(in[1], in[2], in[3], in[4], in[5], in[6], in[7])]
         /\ UNCHANGED <<kind, in>>
Next == Eval1 \/ Eval2
Spec == Init /\ [][Next]_vars

(* Impl-shaped refines Abstract *)
Refines1 == (pc = "done" /\ kind = "1d") =>
   Judge1(in[1], in[2], in[3], in[4], out.chk[1], out.chk[2], out.tol[1], out.tol[2], out.con) = "ok"
Refines2 == (pc = "done" /\ kind = "2d") =>
   Judge2(in[1], in[2], in[3], in[4], in[5], in[6], in[7], out.pib) = "ok"
\* consequences the statement names
ResultInRange == (pc = "done" /\ kind = "1d") => InRange(out.expV, in[2], in[3])
TolAgreesPerCoordinate == (pc = "done" /\ kind = "2d") =>
   (out.expIn <=> (~CheckLimitsTolImpl(in[1], in[3], in[5], in[7])[2] /\ ~CheckLimitsTolImpl(in[2], in[4], in[6], in[7])[2]))
=============================================================================
