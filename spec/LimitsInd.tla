----------------------------- MODULE LimitsInd -----------------------------
(* E2 (Apalache) for C18: the impl-shaped branch structures of LimitsOps refine *)
(* the abstract clamp / flag statement for ALL integers (no lattice bound):     *)
(*   apalache-mc check --init=Init --inv=Refines --length=0 LimitsInd.tla        *)
EXTENDS Integers
VARIABLES
  \* @type: Int;
  v,
  \* @type: Int;
  y,
  \* @type: Int;
  lo,
  \* @type: Int;
  hi,
  \* @type: Int;
  ylo,
  \* @type: Int;
  yhi,
  \* @type: Int;
  t
Min2(a, b) == IF a < b THEN a ELSE b
Max2(a, b) == IF a > b THEN a ELSE b
\* Abstract
Clamp(x, l, h) == IF x < l THEN l ELSE IF x > h THEN h ELSE x
FlagPlain(x, l, h) == ~(l <= x /\ x <= h)
FlagTol(x, l, h, tt) == x < l - tt \/ x > h + tt
\* Impl-shaped (as LimitsOps): value and flag parts
ChkV(x, l, h) == IF x > h THEN h ELSE IF x < l THEN l ELSE x
ChkF(x, l, h) == IF x > h THEN TRUE ELSE IF x < l THEN TRUE ELSE FALSE
TolF(x, l, h, tt) == IF x > h THEN (x > h + tt) ELSE IF x < l THEN (x < l - tt) ELSE FALSE
Con(x, l, h) == Max2(l, Min2(h, x))
Pib(px, py, xl, yl, xh, yh, tt) ==
  IF px < xl - tt THEN FALSE ELSE IF py < yl - tt THEN FALSE ELSE IF px > xh + tt THEN FALSE ELSE IF py > yh + tt THEN FALSE ELSE TRUE
Init == /\ v \in Int /\ y \in Int /\ lo \in Int /\ hi \in Int /\ ylo \in Int /\ yhi \in Int /\ t \in Int
        /\ lo <= hi /\ ylo <= yhi /\ t >= 0
Next == UNCHANGED <<v, y, lo, hi, ylo, yhi, t>>
Refines ==
  /\ ChkV(v, lo, hi) = Clamp(v, lo, hi) /\ ChkF(v, lo, hi) = FlagPlain(v, lo, hi)
  /\ TolF(v, lo, hi, t) = FlagTol(v, lo, hi, t)
  /\ Con(v, lo, hi) = Clamp(v, lo, hi)
  /\ lo <= Clamp(v, lo, hi) /\ Clamp(v, lo, hi) <= hi
  /\ Pib(v, y, lo, ylo, hi, yhi, t) = (~FlagTol(v, lo, hi, t) /\ ~FlagTol(y, ylo, yhi, t))
=============================================================================
