----------------------------- MODULE LimitsOps -----------------------------
(* C18 - travel-limit helpers of plot_utils.                                *)
(* Abstract layer = the statement; Impl layer = the code's branch order.     *)
EXTENDS Integers

Min2(a, b) == IF a < b THEN a ELSE b
Max2(a, b) == IF a > b THEN a ELSE b

(* ---------------- Abstract (the property statement) ---------------- *)
InRange(v, lo, hi)      == lo <= v /\ v <= hi
Clamp(v, lo, hi)        == IF v < lo THEN lo ELSE IF v > hi THEN hi ELSE v
FlagPlain(v, lo, hi)    == ~InRange(v, lo, hi)
FlagTol(v, lo, hi, t)   == v < lo - t \/ v > hi + t            \* outside by MORE than t
InBounds2D(x, y, xlo, ylo, xhi, yhi, t) == ~FlagTol(x, xlo, xhi, t) /\ ~FlagTol(y, ylo, yhi, t)

(* ---------------- Impl-shaped (branch order of the code) ----------- *)
CheckLimitsImpl(v, lo, hi) ==
  IF v > hi THEN <<hi, TRUE>> ELSE IF v < lo THEN <<lo, TRUE>> ELSE <<v, FALSE>>
CheckLimitsTolImpl(v, lo, hi, t) ==
  IF v > hi THEN (IF v > hi + t THEN <<hi, TRUE>> ELSE <<hi, FALSE>>)
  ELSE IF v < lo THEN (IF v < lo - t THEN <<lo, TRUE>> ELSE <<lo, FALSE>>)
  ELSE <<v, FALSE>>
ConstrainImpl(v, lo, hi) == Max2(lo, Min2(hi, v))
PointInBoundsImpl(x, y, xlo, ylo, xhi, yhi, t) ==
  IF x < xlo - t THEN FALSE ELSE IF y < ylo - t THEN FALSE
  ELSE IF x > xhi + t THEN FALSE ELSE IF y > yhi + t THEN FALSE ELSE TRUE

(* ---------------- the statement, as predicates on an observed result ---- *)
\* Each returns "ok" or the name of the violated clause.
Judge1(v, lo, hi, t, chkV, chkF, tolV, tolF, con) ==
  IF chkV # Clamp(v, lo, hi) THEN "checkLimits.value"
  ELSE IF chkF # FlagPlain(v, lo, hi) THEN "checkLimits.flag"
  ELSE IF tolV # Clamp(v, lo, hi) THEN "checkLimitsTol.value"
  ELSE IF tolF # FlagTol(v, lo, hi, t) THEN "checkLimitsTol.flag"
  ELSE IF con # Clamp(v, lo, hi) THEN "constrainLimits.value"
  ELSE IF ~InRange(chkV, lo, hi) \/ ~InRange(tolV, lo, hi) \/ ~InRange(con, lo, hi) THEN "result.inrange"
  ELSE "ok"
Judge2(x, y, xlo, ylo, xhi, yhi, t, pib) ==
  IF pib # InBounds2D(x, y, xlo, ylo, xhi, yhi, t) THEN "point_in_bounds" ELSE "ok"
=============================================================================
