---------------------------- MODULE LimitsTrace ----------------------------
(* V direction for C18: events recorded from the real helpers are judged by the *)
(* abstract operators of LimitsOps. One state per event; verdict is total.      *)
EXTENDS LimitsOps, Sequences, Json, IOUtils, TLC
Trace == ndJsonDeserialize(IOEnv.TRACE_FILE)
VARIABLES i, verdict
Judge(e) ==
  IF e.k = "1d" THEN
     IF ~(e.lo <= e.hi /\ e.t >= 0) THEN "skip"
     ELSE Judge1(e.v, e.lo, e.hi, e.t, e.chkV, e.chkF, e.tolV, e.tolF, e.con)
  ELSE
     IF ~(e.xlo <= e.xhi /\ e.ylo <= e.yhi /\ e.t >= 0) THEN "skip"
     ELSE Judge2(e.x, e.y, e.xlo, e.ylo, e.xhi, e.yhi, e.t, e.pib)
TInit == i = 0 /\ verdict = "init"
TNext == i < Len(Trace) /\ i' = i + 1 /\ verdict' = Judge(Trace[i + 1])
TSpec == TInit /\ [][TNext]_<<i, verdict>>
=============================================================================
