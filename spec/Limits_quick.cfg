SPECIFICATION Spec
CONSTANTS
  NegV = 3
  PosV = 8
  Bnds = {0,1,2,4}
  Tols = {0,1,2}
INVARIANT Refines1
INVARIANT Refines2
INVARIANT ResultInRange
INVARIANT TolAgreesPerCoordinate
CHECK_DEADLOCK FALSE
