SPECIFICATION Spec
CONSTANTS
  NegV = 3
  PosV = 8
  Bnds = {0,1,2,3,4,5}
  Tols = {0,1,2,3}
INVARIANT Refines1
INVARIANT Refines2
INVARIANT ResultInRange
INVARIANT TolAgreesPerCoordinate
CHECK_DEADLOCK FALSE
