------------------------------ MODULE PathData ------------------------------
(* Growth beyond the listed properties: the pen position an SVG path data      *)
(* string leaves behind (plot_utils.pathdata_first_point / _last_point).        *)
(* One action per path command, as SVG 1.1 section 8.3 defines the current      *)
(* point: absolute commands end at their final coordinate pair, relative ones   *)
(* at the current point plus it; H/V move along one axis; Z returns to the      *)
(* start of the current subpath; a moveto starts a new subpath (a relative      *)
(* moveto at the very beginning is relative to the origin).                     *)
(* Every state is a vector: the command list, the first moveto point and the    *)
(* current point.  The harness renders the list to text in several spellings    *)
(* (separators, implicit command repetition, no space after the letter).        *)
EXTENDS Integers, Sequences
CONSTANT MaxLen
VARIABLES cmds, cur, sub, first
vars == <<cmds, cur, sub, first>>
Pair == {<<x, y>> : x \in {-1, 2}, y \in {0, 3}}
One == {-1, 2}
\* commands with their argument lists; only the final pair / single coordinate varies, control arguments are fixed
Two(c) == {[c |-> c, a |-> <<p[1], p[2]>>] : p \in Pair}
Uni(c) == {[c |-> c, a |-> <<v>>] : v \in One}
Cub(c) == {[c |-> c, a |-> <<1, 1, 2, -2, p[1], p[2]>>] : p \in Pair}
Qua(c) == {[c |-> c, a |-> <<1, -1, p[1], p[2]>>] : p \in Pair}
Arc(c) == {[c |-> c, a |-> <<2, 1, 0, 0, 1, p[1], p[2]>>] : p \in Pair}
Moves == Two("M") \cup Two("m")
Others == Two("L") \cup Two("l") \cup Two("T") \cup Two("t") \cup Uni("H") \cup Uni("h") \cup Uni("V") \cup Uni("v")
          \cup Cub("C") \cup Cub("c") \cup Qua("S") \cup Qua("s") \cup Qua("Q") \cup Qua("q") \cup Arc("A") \cup Arc("a")
          \cup {[c |-> "Z", a |-> <<>>], [c |-> "z", a |-> <<>>]}
Relative(c) == c \in {"m", "l", "t", "h", "v", "c", "s", "q", "a"}
\* where command k leaves the pen
EndPoint(k, from, start) ==
  LET n == Len(k.a)
      rel == Relative(k.c) IN
  IF k.c \in {"Z", "z"} THEN start
  ELSE IF k.c \in {"H", "h"} THEN <<(IF rel THEN from[1] ELSE 0) + k.a[1], from[2]>>
  ELSE IF k.c \in {"V", "v"} THEN <<from[1], (IF rel THEN from[2] ELSE 0) + k.a[1]>>
  ELSE <<(IF rel THEN from[1] ELSE 0) + k.a[n - 1], (IF rel THEN from[2] ELSE 0) + k.a[n]>>
Init == \E k \in Moves : LET p == EndPoint(k, <<0, 0>>, <<0, 0>>) IN
          cmds = <<k>> /\ cur = p /\ sub = p /\ first = p
Step == /\ Len(cmds) < MaxLen
        /\ \E k \in Moves \cup Others :
             LET p == EndPoint(k, cur, sub) IN
             /\ cmds' = Append(cmds, k) /\ cur' = p
             /\ sub' = IF k.c \in {"M", "m"} THEN p ELSE sub
             /\ UNCHANGED first
Spec == Init /\ [][Step]_vars
\* consequences
FirstIsFirstMove == first = EndPoint(cmds[1], <<0, 0>>, <<0, 0>>)
ClosedEndsAtSubpathStart == (cmds[Len(cmds)].c \in {"Z", "z"}) => cur = sub
=============================================================================
