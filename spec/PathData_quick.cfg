SPECIFICATION Spec
CONSTANTS
  MaxLen = 2
INVARIANT FirstIsFirstMove
INVARIANT ClosedEndsAtSubpathStart
CHECK_DEADLOCK FALSE
