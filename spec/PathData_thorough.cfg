SPECIFICATION Spec
CONSTANTS
  MaxLen = 3
INVARIANT FirstIsFirstMove
INVARIANT ClosedEndsAtSubpathStart
CHECK_DEADLOCK FALSE
