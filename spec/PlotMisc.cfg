SPECIFICATION Spec
CONSTANT N = 4
INVARIANT NearIsStrict
INVARIANT DotInRange
CHECK_DEADLOCK FALSE
