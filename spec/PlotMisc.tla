------------------------------ MODULE PlotMisc ------------------------------
(* Growth beyond the listed properties (DESIGN 7 / 10.6): the remaining small  *)
(* geometric / kinematic helpers of plot_utils on integer lattices, where the   *)
(* expected value is exact: square_dist, points_near (strict), distance on      *)
(* Pythagorean pairs, dotProductXY (clamped to [-1, 1]), position_scale,        *)
(* vFinal_Vi_A_Dx / vInitial_VF_A_Dx on perfect squares (-1 when no real root). *)
(* Reported as EXTENDED observations in the C18 evidence, never a violation.    *)
EXTENDS Integers, TLC
CONSTANT N
R == (0 - N)..N
VARIABLES k, in, exp
vars == <<k, in, exp>>
Sq(x) == x * x
IsSquare(n) == n >= 0 /\ \E r \in 0..(4 * N * N + 4 * N) : r * r = n
Root(n) == CHOOSE r \in 0..(4 * N * N + 4 * N) : r * r = n
Clamp1(v) == IF v > 1 THEN 1 ELSE IF v < -1 THEN -1 ELSE v
Init ==
  \/ /\ k = "square_dist" /\ in \in R \X R \X R \X R /\ exp = <<Sq(in[1] - in[3]) + Sq(in[2] - in[4])>>
  \/ /\ k = "points_near" /\ in \in R \X R \X R \X R \X {0, 1, 2, 5, 8}
     /\ exp = <<Sq(in[1] - in[3]) + Sq(in[2] - in[4]) < in[5]>>
  \/ /\ k = "distance" /\ in \in R \X R /\ IsSquare(Sq(in[1]) + Sq(in[2])) /\ exp = <<Root(Sq(in[1]) + Sq(in[2]))>>
  \/ /\ k = "dot_clamped" /\ in \in R \X R \X R \X R /\ exp = <<Clamp1(in[1] * in[3] + in[2] * in[4])>>
  \/ /\ k = "v_final" /\ in \in (0..N) \X R \X (0..N)                         \* (v_initial, accel, delta_x)
     /\ LET s == 2 * in[2] * in[3] + Sq(in[1]) IN (s < 0 \/ IsSquare(s)) /\ exp = <<IF s < 0 THEN -1 ELSE Root(s)>>
  \/ /\ k = "v_initial" /\ in \in (0..N) \X R \X (0..N)                       \* (v_final, accel, delta_x)
     /\ LET s == Sq(in[1]) - 2 * in[2] * in[3] IN (s < 0 \/ IsSquare(s)) /\ exp = <<IF s < 0 THEN -1 ELSE Root(s)>>
Next == FALSE /\ UNCHANGED vars
Spec == Init /\ [][Next]_vars
NearIsStrict == (k = "points_near" /\ Sq(in[1] - in[3]) + Sq(in[2] - in[4]) = in[5]) => exp = <<FALSE>>
DotInRange == (k = "dot_clamped") => exp[1] \in {-1, 0, 1}
=============================================================================
