------------------------------- MODULE RTree -------------------------------
(* E1/G machine for C14. Construction is a work-list machine (one Split per    *)
(* node, as the recursive constructor does); the pruned recursive query is an   *)
(* operator evaluated on the finished tree for every query box of the lattice.  *)
EXTENDS RTreeOps, TLC
CONSTANTS MaxN,      \* boxes per collection
          K,         \* box corners on {0,2,..,2(K-1)}
          QN,        \* query corners on 0..QN-1
          Strict     \* TRUE: pinned comparisons; FALSE: repaired
VARIABLES boxes, tree, todo, hitsv
vars == <<boxes, tree, todo, hitsv>>

BoxOf(c) == <<2 * (c % K), 2 * ((c \div (K * K)) % K), 2 * ((c \div K) % K), 2 * (c \div (K * K * K))>>
ValidBox(c) == LET b == BoxOf(c) IN b[1] <= b[3] /\ b[2] <= b[4]
BoxCodes == {c \in 0..(K * K * K * K - 1) : ValidBox(c)}
QOf(c) == <<c % QN, (c \div QN) % QN, (c \div (QN * QN)) % QN, c \div (QN * QN * QN)>>
ValidQ(c) == LET q == QOf(c) IN q[1] <= q[3] /\ q[2] <= q[4]
QCodes == 0..(QN * QN * QN * QN - 1)

Init ==
  /\ \E n \in 0..MaxN : \E f \in [1..n -> BoxCodes] :
        /\ \A i \in 1..(n - 1) : f[i] <= f[i + 1]          \* a multiset: non-decreasing codes
        /\ boxes = [i \in 1..n |-> BoxOf(f[i])]
  /\ tree = (<<>> :> [S |-> DOMAIN boxes, kind |-> "todo"])
  /\ todo = << <<>> >>
  /\ hitsv = <<>>

Split ==
  /\ todo # <<>>
  /\ LET p == Head(todo)
         S == tree[p].S
         quads == Quadrants(S, boxes, Strict)
     IN IF IsLeaf(S, quads)
        THEN /\ tree' = [tree EXCEPT ![p].kind = "leaf"]
             /\ todo' = Tail(todo)
        ELSE /\ tree' = [tree EXCEPT ![p].kind = "inner"] @@
                        [c \in {Append(p, k) : k \in 1..4} |-> [S |-> quads[c[Len(c)]], kind |-> "todo"]]
             /\ todo' = Tail(todo) \o [k \in 1..4 |-> Append(p, k)]
  /\ UNCHANGED <<boxes, hitsv>>

RECURSIVE QueryTree(_, _)
QueryTree(p, q) ==
  IF tree[p].kind = "leaf" THEN {i \in tree[p].S : Meets(boxes[i], q)}
  ELSE UNION { LET c == Append(p, k) IN
               IF tree[c].S = {} THEN {}                          \* bounds are (inf,-inf): always disjoint
               ELSE IF ~Meets(Bounds(tree[c].S, boxes), q) THEN {}
               ELSE QueryTree(c, q) : k \in 1..4 }

RECURSIVE Mask(_)
Mask(S) == IF S = {} THEN 0 ELSE LET i == CHOOSE j \in S : TRUE IN 2 ^ (i - 1) + Mask(S \ {i})

\* after construction: record what the ABSTRACT layer allows for every query (test vectors for G)
Finish ==
  /\ todo = <<>> /\ hitsv = <<>>
  /\ hitsv' = [c \in 1..(QN * QN * QN * QN) |-> IF ValidQ(c - 1) THEN Mask(Hits(boxes, QOf(c - 1))) ELSE 0 - 1]
  /\ UNCHANGED <<boxes, tree, todo>>

Next == Split \/ Finish
Spec == Init /\ [][Next]_vars

Built == todo = <<>>
(* every box of a split node is in some child *)
NoBoxLost == \A p \in DOMAIN tree : tree[p].kind = "inner" =>
                UNION {tree[Append(p, k)].S : k \in 1..4} = tree[p].S
(* construction terminates: children are strictly smaller, so depth <= number of boxes *)
ChildrenSmaller == \A p \in DOMAIN tree : p # <<>> =>
                Cardinality(tree[p].S) < Cardinality(tree[SubSeq(p, 1, Len(p) - 1)].S)
DepthBound == \A p \in DOMAIN tree : Len(p) <= Len(boxes)
(* pruned recursive query = brute force, for every query box of the lattice *)
QueryEqualsHits == Built => \A c \in QCodes : ValidQ(c) => QueryTree(<<>>, QOf(c)) = Hits(boxes, QOf(c))
(* ---- liveness: construction terminates (C14: "and construction terminates") - the work list empties ---- *)
FairSpec == Spec /\ WF_vars(Split)
ConstructionTerminates == <>(todo = <<>>)
=============================================================================
