------------------------------ MODULE RTreeOps ------------------------------
(* C14 - rtree.Index: one-shot R-tree, intersection query.                   *)
(* A box is <<x1, y1, x2, y2>> with x1 <= x2, y1 <= y2 (closed).              *)
EXTENDS Integers, Sequences, FiniteSets

(* ---------------- Abstract: the statement ---------------- *)
Meets(b, q) == ~(q[1] > b[3] \/ q[2] > b[4] \/ q[3] < b[1] \/ q[4] < b[2])   \* share >= 1 point
Hits(boxes, q) == {i \in DOMAIN boxes : Meets(boxes[i], q)}

(* ---------------- helpers ---------------- *)
RECURSIVE SumOver(_, _, _)
SumOver(S, boxes, k) ==            \* sum of boxes[i][k] + boxes[i][k+2] over i in S
  IF S = {} THEN 0 ELSE LET i == CHOOSE j \in S : TRUE IN boxes[i][k] + boxes[i][k + 2] + SumOver(S \ {i}, boxes, k)
MinOf(S) == CHOOSE m \in S : \A x \in S : m <= x
MaxOf(S) == CHOOSE m \in S : \A x \in S : m >= x
Bounds(S, boxes) ==                \* bounding box of a non-empty member set
  <<MinOf({boxes[i][1] : i \in S}), MinOf({boxes[i][2] : i \in S}),
    MaxOf({boxes[i][3] : i \in S}), MaxOf({boxes[i][4] : i \in S})>>

(* ---------------- Impl-shaped: one split of a node ---------------- *)
\* centre = mean of box centres = Sum(x1+x2) / (2n): compare 2n*x with the sum, exactly.
\* Strict = TRUE is the code as pinned (x1 < cx ...); FALSE is the repaired code (x1 <= cx ...).
Quadrants(S, boxes, Strict) ==
  LET n  == Cardinality(S)
      sx == SumOver(S, boxes, 1)
      sy == SumOver(S, boxes, 2)
      L(i) == IF Strict THEN 2 * n * boxes[i][1] < sx ELSE 2 * n * boxes[i][1] <= sx
      R(i) == IF Strict THEN 2 * n * boxes[i][3] > sx ELSE 2 * n * boxes[i][3] >= sx
      T(i) == IF Strict THEN 2 * n * boxes[i][2] < sy ELSE 2 * n * boxes[i][2] <= sy
      B(i) == IF Strict THEN 2 * n * boxes[i][4] > sy ELSE 2 * n * boxes[i][4] >= sy
  IN <<{i \in S : L(i) /\ T(i)}, {i \in S : R(i) /\ T(i)}, {i \in S : L(i) /\ B(i)}, {i \in S : R(i) /\ B(i)}>>
IsLeaf(S, quads) == \E k \in 1..4 : Cardinality(quads[k]) = Cardinality(S)   \* max(len) == len
=============================================================================
