----------------------------- MODULE RTreeTrace -----------------------------
(* V direction for C14: a recorded history of build / intersection events on   *)
(* the real rtree.Index is judged against the Abstract layer (Hits) only.      *)
EXTENDS RTreeOps, Json, IOUtils, TLC
Trace == ndJsonDeserialize(IOEnv.TRACE_FILE)
VARIABLES i, cur, verdict
ToSet(s) == {s[k] : k \in DOMAIN s}
Step(e) ==
  IF e.ev = "build" THEN
     /\ cur' = e.boxes
     /\ verdict' = IF \A k \in DOMAIN e.boxes : e.boxes[k][1] <= e.boxes[k][3] /\ e.boxes[k][2] <= e.boxes[k][4]
                   THEN "ok" ELSE "skip"
  ELSE
     /\ cur' = cur
     /\ verdict' = IF e.raised THEN "query.raised"
                   ELSE LET want == Hits(cur, e.q) got == ToSet(e.res) IN
                        IF got = want THEN "ok"
                        ELSE IF want \ got # {} THEN "query.missed" ELSE "query.extra"
TInit == i = 0 /\ cur = <<>> /\ verdict = "init"
TNext == i < Len(Trace) /\ i' = i + 1 /\ Step(Trace[i + 1])
TSpec == TInit /\ [][TNext]_<<i, cur, verdict>>
=============================================================================
