SPECIFICATION FairSpec
CONSTANTS
  MaxN = 3
  K = 3
  QN = 5
  Strict = FALSE
CHECK_DEADLOCK FALSE
PROPERTY ConstructionTerminates
