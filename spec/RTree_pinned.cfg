SPECIFICATION Spec
CONSTANTS
  MaxN = 2
  K = 2
  QN = 4
  Strict = TRUE
INVARIANT NoBoxLost
CHECK_DEADLOCK FALSE
