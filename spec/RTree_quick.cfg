SPECIFICATION Spec
CONSTANTS
  MaxN = 3
  K = 3
  QN = 5
  Strict = FALSE
INVARIANT NoBoxLost
INVARIANT ChildrenSmaller
INVARIANT DepthBound
INVARIANT QueryEqualsHits
CHECK_DEADLOCK FALSE
