SPECIFICATION Spec
CONSTANTS
  MaxN = 4
  K = 2
  QN = 4
  Strict = FALSE
INVARIANT NoBoxLost
INVARIANT ChildrenSmaller
INVARIANT DepthBound
INVARIANT QueryEqualsHits
CHECK_DEADLOCK FALSE
