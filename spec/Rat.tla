-------------------------------- MODULE Rat --------------------------------
(* Exact rationals <<n, d>> with d > 0 and gcd(n, d) = 1, native integers.   *)
(* Callers keep magnitudes small enough that cross products stay below 2^31  *)
(* (TLC raises on overflow, so a mistake is loud, never a wrong verdict).     *)
EXTENDS Integers
AbsZ(x) == IF x < 0 THEN 0 - x ELSE x
RECURSIVE Gcd(_, _)
Gcd(a, b) == IF b = 0 THEN a ELSE Gcd(b, a % b)
QDiv(n, g) == IF n >= 0 THEN n \div g ELSE 0 - ((0 - n) \div g)        \* exact division keeping sign
R(n, d) == LET g == Gcd(AbsZ(n), AbsZ(d)) IN
           IF d > 0 THEN <<QDiv(n, g), d \div g>> ELSE <<QDiv(0 - n, g), (0 - d) \div g>>
RI(n) == <<n, 1>>
RAdd(a, b) == R(a[1] * b[2] + b[1] * a[2], a[2] * b[2])
RSub(a, b) == R(a[1] * b[2] - b[1] * a[2], a[2] * b[2])
\* cross-cancel before multiplying so that intermediate products stay small
RMul(a, b) == LET g1 == Gcd(AbsZ(a[1]), b[2]) g2 == Gcd(AbsZ(b[1]), a[2]) IN
              IF a[1] = 0 \/ b[1] = 0 THEN <<0, 1>>
              ELSE R(QDiv(a[1], g1) * QDiv(b[1], g2), (a[2] \div g2) * (b[2] \div g1))
RInv(b) == IF b[1] > 0 THEN <<b[2], b[1]>> ELSE <<0 - b[2], 0 - b[1]>>          \* b # 0
RDiv(a, b) == RMul(a, RInv(b))
RLt(a, b) == a[1] * b[2] < b[1] * a[2]
RLe(a, b) == a[1] * b[2] <= b[1] * a[2]
REq(a, b) == a = b                    \* values are always normalised
RMax(a, b) == IF RLt(a, b) THEN b ELSE a
RMin(a, b) == IF RLt(a, b) THEN a ELSE b
RNeg(a) == <<0 - a[1], a[2]>>
RSign(a) == IF a[1] > 0 THEN 1 ELSE IF a[1] < 0 THEN -1 ELSE 0
RFloor(a) == IF a[1] >= 0 THEN a[1] \div a[2] ELSE 0 - (((0 - a[1]) + a[2] - 1) \div a[2])
=============================================================================
