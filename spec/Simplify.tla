------------------------------ MODULE Simplify ------------------------------
(* E1/G machine for C09: the supersample index walk, one action per inner-loop *)
(* test / deletion, over every vertex list of the lattice.                     *)
EXTENDS SimplifyOps, TLC
CONSTANTS N,          \* lattice coordinates 0..N
          MaxLen,     \* list lengths 1..MaxLen
          Tols        \* set of <<sg, tn, td>>
VARIABLES vs, tol,    \* inputs
          cur,        \* surviving original indices, in order (the list being edited)
          si, ei,     \* start_index, end_index (0-based as in the code)
          pc
vars == <<vs, tol, cur, si, ei, pc>>
Pt == (0..N) \X (0..N)
Lists == UNION {[1..n -> Pt] : n \in 1..MaxLen}
Init == /\ vs \in Lists /\ tol \in Tols
        /\ cur = Untouched(Len(vs)) /\ si = 0 /\ ei = 0
        /\ pc = IF Len(vs) <= 2 \/ tol[1] <= 0 THEN "done" ELSE "outer"
Slice(a, b) == [k \in 1..(b - a + 1) |-> vs[cur[a + k]]]            \* vertices[a : b+1], 0-based a..b
Outer == /\ pc = "outer"
         /\ IF si < Len(cur) - 2 THEN ei' = si + 2 /\ pc' = "inner" ELSE pc' = "done" /\ ei' = ei
         /\ UNCHANGED <<vs, tol, cur, si>>
Inner == /\ pc = "inner"
         \* while points_in_tolerance(vertices[si:ei+1]) and ei < len(vertices): ei += 1
         \* (the slice is clipped to the list end, as Python slicing does)
         /\ LET hi == IF ei + 1 <= Len(cur) THEN ei ELSE Len(cur) - 1 IN
            IF InTolUnrolled(Slice(si, hi), tol[2], tol[3]) /\ ei < Len(cur)
            THEN ei' = ei + 1 /\ pc' = "inner" /\ UNCHANGED <<cur, si>>
            ELSE \* del vertices[si+1 : ei-1]; si += 1
                 /\ cur' = [k \in 1..(Len(cur) - ((ei - 1) - (si + 1))) |->
                               IF k <= si + 1 THEN cur[k] ELSE cur[k + ((ei - 1) - (si + 1))]]
                 /\ si' = si + 1 /\ pc' = "outer" /\ UNCHANGED ei
         /\ UNCHANGED <<vs, tol>>
Next == Outer \/ Inner
Spec == Init /\ [][Next]_vars

WalkRefinesReduced == (pc = "done") => Reduced(vs, tol[1], tol[2], tol[3], cur)
UnrolledEqualsAbstract ==      \* the code's fast predicate is the abstract one, on every sub-run it is asked about
  (pc = "inner") => LET hi == IF ei + 1 <= Len(cur) THEN ei ELSE Len(cur) - 1 IN
                    (hi - si >= 2) => (InTolUnrolled(Slice(si, hi), tol[2], tol[3]) <=> AllInTol(Slice(si, hi), tol[2], tol[3]))
SliceHasInterior == (pc = "inner") => (IF ei + 1 <= Len(cur) THEN ei ELSE Len(cur) - 1) - si >= 2   \* the code's assert never fires
IndicesSane == si >= 0 /\ Len(cur) >= 1 /\ (pc = "inner" => ei >= si + 2)
(* ---- liveness: the index walk terminates for every list and tolerance ---- *)
FairSpec == Spec /\ WF_vars(Next)
EventuallyDone == <>(pc = "done")
=============================================================================
