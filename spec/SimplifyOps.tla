---------------------------- MODULE SimplifyOps ----------------------------
(* C09 - vertex reduction (plot_utils.supersample / points_in_tolerance /      *)
(* max_dist_from_n_points).  Vertices are integer lattice points <<x, y>>; the *)
(* squared tolerance is an exact rational tn/td chosen tie-free (td = 7 and 7  *)
(* does not divide tn: no squared point-to-segment distance of lattice objects *)
(* equals such a value), so no tolerance band is needed.  sg is the sign of    *)
(* the tolerance itself (a negative tolerance has a positive square).          *)
EXTENDS Integers, Sequences

Sq(x) == x * x
D2(p, q) == Sq(p[1] - q[1]) + Sq(p[2] - q[2])
Dot(p, a, b) == (p[1] - a[1]) * (b[1] - a[1]) + (p[2] - a[2]) * (b[2] - a[2])
Cross(p, a, b) == (p[1] - a[1]) * (b[2] - a[2]) - (b[1] - a[1]) * (p[2] - a[2])

(* ---------------- Abstract ---------------- *)
\* squared distance from p to the closed segment ab, as a rational <<num, den>>
Dist2(p, a, b) ==
  LET l2 == D2(a, b) t == Dot(p, a, b) IN
  IF l2 = 0 \/ t <= 0 THEN <<D2(p, a), 1>>
  ELSE IF t >= l2 THEN <<D2(p, b), 1>>
  ELSE <<Sq(Cross(p, a, b)), l2>>
\* dist(p, ab) < tolerance   (tolerance > 0)
InTol(p, a, b, tn, td) == LET d == Dist2(p, a, b) IN d[1] * td < tn * d[2]
\* some interior point lies EXACTLY at the tolerance distance (only possible for the exact tolerances)
HasTie(pts, tn, td) == \E k \in 2..(Len(pts) - 1) : LET d == Dist2(pts[k], pts[1], pts[Len(pts)]) IN d[1] * td = tn * d[2]
AllInTol(pts, tn, td) == \A k \in 2..(Len(pts) - 1) : InTol(pts[k], pts[1], pts[Len(pts)], tn, td)
Untouched(n) == [k \in 1..n |-> k]
\* the statement: `kept` (indices into vs) is what a correct simplifier may leave
Reduced(vs, sg, tn, td, kept) ==
  LET n == Len(vs) m == Len(kept) IN
  IF n <= 2 \/ sg <= 0 THEN kept = Untouched(n)
  ELSE /\ m >= 2 /\ kept[1] = 1 /\ kept[m] = n
       /\ \A k \in 1..(m - 1) : kept[k] < kept[k + 1]
       /\ \A k \in 1..(m - 1) : \A d \in (kept[k] + 1)..(kept[k + 1] - 1) :
             InTol(vs[d], vs[kept[k]], vs[kept[k + 1]], tn, td)
\* name of the violated clause, for reports
WhyNotReduced(vs, sg, tn, td, kept) ==
  LET n == Len(vs) m == Len(kept) IN
  IF n <= 2 \/ sg <= 0 THEN (IF kept = Untouched(n) THEN "ok" ELSE "simplify.must_leave_unchanged")
  ELSE IF m < 2 \/ kept[1] # 1 \/ kept[m] # n THEN "simplify.keeps_first_and_last"
  ELSE IF \E k \in 1..(m - 1) : kept[k] >= kept[k + 1] THEN "simplify.in_order_subsequence"
  ELSE IF Reduced(vs, sg, tn, td, kept) THEN "ok" ELSE "simplify.deleted_vertex_within_tolerance"

(* ---------------- Impl-shaped: the unrolled predicate of the code ---------------- *)
PointOKUnrolled(p, a, b, tn, td) ==
  LET sdx == b[1] - a[1] sdy == b[2] - a[2]
      dx == p[1] - a[1] dy == p[2] - a[2]
      t1 == dx * sdx + dy * sdy IN
  IF t1 <= 0 THEN (dx * dx + dy * dy) * td < tn
  ELSE LET l2 == sdx * sdx + sdy * sdy IN
       IF l2 <= t1 THEN (Sq(p[1] - b[1]) + Sq(p[2] - b[2])) * td < tn
       ELSE IF l2 = 0 THEN FALSE
       ELSE LET c == dx * sdy - sdx * dy IN c * c * td < tn * l2
InTolUnrolled(pts, tn, td) == \A k \in 2..(Len(pts) - 1) : PointOKUnrolled(pts[k], pts[1], pts[Len(pts)], tn, td)
=============================================================================
