--------------------------- MODULE SimplifyTrace ---------------------------
(* V direction for C09 (and the judge for G results that differ from the walk): *)
(* recorded supersample results and predicate values judged by the abstract     *)
(* operators of SimplifyOps.                                                    *)
EXTENDS SimplifyOps, Json, IOUtils, TLC
Trace == ndJsonDeserialize(IOEnv.TRACE_FILE)
VARIABLES i, verdict
Pts(e) == [k \in 1..Len(e.pts) |-> <<e.pts[k][1], e.pts[k][2]>>]
Judge(e) ==
  IF e.k = "ss" THEN
     IF ~e.ident THEN "simplify.same_vertex_objects"
     ELSE IF \E k \in 1..Len(e.kept) : e.kept[k] < 1 \/ e.kept[k] > Len(e.pts) THEN "simplify.in_order_subsequence"
     ELSE WhyNotReduced(Pts(e), e.sg, e.tn, e.td, e.kept)
  ELSE IF e.k = "pit" THEN
     IF Len(e.pts) < 3 \/ e.sg <= 0 THEN "skip"
     ELSE LET want == AllInTol(Pts(e), e.tn, e.td) IN
          IF e.pit # want THEN "predicate.points_in_tolerance"
          ELSE IF e.ref # want /\ ~HasTie(Pts(e), e.tn, e.td) THEN "predicate.reference_max_distance"     \* the reference takes a square root: not judged at an exact tie
          ELSE "ok"
  ELSE "badevent"
TInit == i = 0 /\ verdict = "init"
TNext == i < Len(Trace) /\ i' = i + 1 /\ verdict' = Judge(Trace[i + 1])
TSpec == TInit /\ [][TNext]_<<i, verdict>>
=============================================================================
