SPECIFICATION FairSpec
CONSTANTS
  N = 2
  MaxLen = 4
  Tols <- TolsQuick
CHECK_DEADLOCK FALSE
PROPERTY EventuallyDone
