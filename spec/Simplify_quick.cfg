SPECIFICATION Spec
CONSTANTS
  N = 2
  MaxLen = 4
  Tols <- TolsQuick
INVARIANT WalkRefinesReduced
INVARIANT UnrolledEqualsAbstract
INVARIANT SliceHasInterior
INVARIANT IndicesSane
CHECK_DEADLOCK FALSE
