SPECIFICATION Spec
CONSTANTS
  N = 2
  MaxLen = 5
  Tols <- TolsFull
INVARIANT WalkRefinesReduced
INVARIANT UnrolledEqualsAbstract
INVARIANT SliceHasInterior
INVARIANT IndicesSane
CHECK_DEADLOCK FALSE
