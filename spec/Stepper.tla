------------------------------ MODULE Stepper ------------------------------
(* The EBB firmware step accumulator of one axis, one action per 40 us tick.    *)
(* This is the ABSTRACT layer of C01/C02/C03/C17: the property statements are   *)
(* "the library predicts what this machine does".                               *)
(*                                                                              *)
(*   load : rate := rate - trunc(accel/2) + trunc(jerk/6)   (toward zero)       *)
(*          accumulator := given value, or by the clear rule                    *)
(*   tick : rate += accel ; accel += jerk ; accumulator += rate                 *)
(*          position = floor(total / MOD), accumulator = total mod MOD          *)
(*                                                                              *)
(* An LT/LM move is the same machine with jerk = 0.  MOD = Mm1 + 1 is 2^31 in   *)
(* the firmware; 2^31 itself is not a TLC integer, so everything is phrased     *)
(* with Mm1 and compare-before-add (TLC raises on overflow, it never wraps).    *)
(* States are self-contained test vectors: cmd + tick determine the rest.       *)
EXTENDS Integers, TLC
CONSTANTS Mm1,                 \* MOD - 1
          Rates, Accels, Jerks, \* input sets
          Accs,                 \* start accumulators; Clear (= -1) means "clear"
          NearClear,            \* BOOLEAN: add the start rates / jerks that sit on the clear-rule boundary
          MaxT, MaxCnt          \* chain length: ticks, and motor steps (LM budgets)
Clear == -1

VARIABLES cmd,      \* [r, a, j, c] as given by the caller
          r0, acc0, \* adjusted rate and accumulator after load
          tick, rate, accel, acc, pos,
          cnt, stepped,       \* motor steps taken so far in either direction; did this tick step
          peak, rate1,        \* max |rate_k| over ticks 1..tick; |rate_1|
          firstnz             \* sign of the first non-zero rate among ticks 1..3 (0: none yet)
vars == <<cmd, r0, acc0, tick, rate, accel, acc, pos, cnt, stepped, peak, rate1, firstnz>>

AbsI(x) == IF x < 0 THEN 0 - x ELSE x
Sign(x) == IF x > 0 THEN 1 ELSE IF x < 0 THEN -1 ELSE 0
MaxI(x, y) == IF x > y THEN x ELSE y
TruncDiv(x, k) == IF x >= 0 THEN x \div k ELSE 0 - ((0 - x) \div k)
\* x + y stays within -Mm1..Mm1 (tested without forming the sum)
Fits(x, y) == IF y >= 0 THEN x <= Mm1 - y ELSE x >= (0 - Mm1) - y
InRange(x) == (0 - Mm1) <= x /\ x <= Mm1

(* ---------------- load ---------------- *)
\* the clear rule: sign of the first non-zero among the would-be rates of ticks 1, 2, 3
ClearValue(rr0, a, j) ==
  LET t1 == rr0 + a IN
  IF t1 < 0 THEN Mm1 ELSE IF t1 > 0 THEN 0
  ELSE LET t2 == a + j IN            \* rate_2 when rate_1 = 0
       IF t2 < 0 THEN Mm1 ELSE IF t2 > 0 THEN 0
       ELSE IF j < 0 THEN Mm1 ELSE 0  \* rate_3 = a + 2j = j when rate_1 = rate_2 = 0
Adjust(r, a, j) == TruncDiv(j, 6) - TruncDiv(a, 2)      \* |.| < 2^30 + 2^29

LoadOK(r, a, j) ==      \* the loaded command is representable and its first tick is in range
  /\ Fits(r, Adjust(r, a, j))
  /\ Fits(r + Adjust(r, a, j), a)
  /\ Fits(a, j)

\* (accel, jerk) pairs: the product of the input sets; with NearClear also jerk = -accel (tick 2 zero when tick 1 is) and, for every
\* non-zero jerk, the accelerations that put the turning point 1/2 - a/j of the rate parabola strictly inside a short move
VertexTicks == {2, 3, 5, 8}
AJPairs ==
  {<<a, j>> : a \in Accels, j \in Jerks}
  \cup (IF NearClear /\ Jerks # {0} THEN {<<a, 0 - a>> : a \in Accels}
                                        \cup UNION {{<<(0 - j) * k, j>>, <<(0 - j) * k + TruncDiv(j, 2), j>>} : j \in Jerks \ {0}, k \in VertexTicks}
        ELSE {})
Init ==
  \E aj \in AJPairs : LET a == aj[1] j == aj[2] IN
  \E r \in Rates \cup (IF NearClear THEN {(0 - a) - Adjust(0, a, j) + d : d \in {-1, 0, 1}} ELSE {}) :
  \E c \in Accs :
    /\ InRange(r) /\ InRange(a) /\ InRange(j) /\ LoadOK(r, a, j)
    /\ cmd = [r |-> r, a |-> a, j |-> j, c |-> c]
    /\ r0 = r + Adjust(r, a, j)
    /\ acc0 = IF c = Clear THEN ClearValue(r + Adjust(r, a, j), a, j) ELSE c
    /\ tick = 0 /\ rate = r + Adjust(r, a, j) /\ accel = a
    /\ acc = (IF c = Clear THEN ClearValue(r + Adjust(r, a, j), a, j) ELSE c)
    /\ pos = 0 /\ cnt = 0 /\ stepped = FALSE /\ peak = 0 /\ rate1 = 0 /\ firstnz = 0

(* ---------------- tick ---------------- *)
Tick ==
  /\ tick < MaxT /\ cnt < MaxCnt
  /\ Fits(rate, accel)                       \* |rate_k| <= Mm1 : the firmware-valid domain
  /\ Fits(accel, cmd.j)                      \* the acceleration stays representable too
  /\ LET nr == rate + accel IN
     /\ rate' = nr
     /\ accel' = accel + cmd.j
     /\ IF nr >= 0
        THEN IF acc > Mm1 - nr
             THEN acc' = (acc - (Mm1 - nr)) - 1 /\ pos' = pos + 1
             ELSE acc' = acc + nr /\ pos' = pos
        ELSE IF acc + nr < 0
             THEN acc' = ((acc + nr) + Mm1) + 1 /\ pos' = pos - 1
             ELSE acc' = acc + nr /\ pos' = pos
     /\ peak' = MaxI(peak, AbsI(nr))
     /\ rate1' = IF tick = 0 THEN AbsI(nr) ELSE rate1
     /\ firstnz' = IF firstnz = 0 /\ tick < 3 THEN Sign(nr) ELSE firstnz
  /\ tick' = tick + 1
  /\ stepped' = (pos' # pos)
  /\ cnt' = IF pos' # pos THEN cnt + 1 ELSE cnt
  /\ UNCHANGED <<cmd, r0, acc0>>

Next == Tick
Spec == Init /\ [][Next]_vars

(* ---------------- properties of the machine ---------------- *)
AccInRange == 0 <= acc /\ acc <= Mm1
OneStepPerTick == [][(pos' - pos) \in {-1, 0, 1} /\ cnt' - cnt \in {0, 1}]_vars
LMFirstTick == [][cnt' # cnt => (cnt' = cnt + 1 /\ stepped')]_vars
PeakIsMax == (tick >= 1) => (AbsI(rate) <= peak /\ rate1 <= peak)
\* the load-time clear decision equals what the ticks then show
ClearRule == (cmd.c = Clear /\ (firstnz # 0 \/ tick >= 3)) => acc0 = (IF firstnz < 0 THEN Mm1 ELSE 0)

\* closed forms (native arithmetic: only in the small universe)
Small == Mm1 < 4096
M == Mm1 + 1
Total == M * pos + acc
ClosedFormPos ==      \* 6*total = 6*acc0 + 6*r0*k + 3*a*k(k+1) + j*(k-1)k(k+1)
  Small => 6 * Total = 6 * acc0 + 6 * r0 * tick + 3 * cmd.a * tick * (tick + 1) + cmd.j * (tick - 1) * tick * (tick + 1)
ClosedFormRate ==     \* 2*rate_k = 2*r0 + 2*a*k + j*k(k-1)
  Small => 2 * rate = 2 * r0 + 2 * cmd.a * tick + cmd.j * tick * (tick - 1)
ClosedFormAccel == Small => accel = cmd.a + cmd.j * tick

(* ---------------- C17: the reported peak rate (impl-shaped max_rate_t3) ---------------- *)
\* rate_k by the closed form (= the stepped rate, ClosedFormRate)
RateAt(k) == r0 + cmd.a * k + (cmd.j * k * (k - 1)) \div 2
CeilDiv(n, d) == IF d > 0 THEN 0 - ((0 - n) \div d) ELSE 0 - (n \div (0 - d))      \* ceil(n/d), d # 0
MaxRateImpl(T) ==
  LET vs == AbsI(RateAt(1))
      ve == AbsI(RateAt(T)) IN
  IF T <= 1 THEN vs
  ELSE IF cmd.j = 0 THEN MaxI(vs, ve)
  ELSE LET sg  == IF cmd.j > 0 THEN 1 ELSE -1
           num == sg * (cmd.j - 2 * cmd.a)            \* t_mid = (j/2 - a)/j = num/den, den > 0
           den == sg * 2 * cmd.j IN
       IF 3 * den < 2 * num /\ 2 * num < (2 * T - 3) * den
       THEN MaxI(MaxI(vs, ve), AbsI(RateAt(CeilDiv(num, den))))
       ELSE MaxI(vs, ve)
\* the statement: never above the true peak, at least the first- and last-tick rates, short by at most |jerk|
PeakBracket(m) == m <= peak /\ rate1 <= m /\ AbsI(rate) <= m /\ peak - m <= AbsI(cmd.j)
MaxRateRefinesBracket == (Small /\ tick >= 1) => PeakBracket(MaxRateImpl(tick))
=============================================================================
