----------------------------- MODULE StepperInd -----------------------------
(* E2 (Apalache): the closed forms of Stepper/StepperLeap are an INDUCTIVE     *)
(* invariant of the tick action for unbounded modulus, rate, acceleration,     *)
(* jerk, start accumulator and tick count.                                      *)
(*   apalache-mc check --init=IndInit --inv=IndInv --length=1 StepperInd.tla   *)
(*   apalache-mc check --init=Init    --inv=IndInv --length=0 StepperInd.tla   *)
EXTENDS Integers
VARIABLES
  \* @type: Int;
  m,
  \* @type: Int;
  r0,
  \* @type: Int;
  a,
  \* @type: Int;
  j,
  \* @type: Int;
  acc0,
  \* @type: Int;
  k,
  \* @type: Int;
  rate,
  \* @type: Int;
  accel,
  \* @type: Int;
  acc,
  \* @type: Int;
  pos

IndInv ==
  /\ m >= 2 /\ k >= 0 /\ 0 <= acc0 /\ acc0 < m
  /\ 0 <= acc /\ acc < m
  /\ accel = a + j * k
  /\ 2 * rate = 2 * r0 + 2 * a * k + j * k * (k - 1)
  /\ 6 * (m * pos + acc) = 6 * acc0 + 6 * r0 * k + 3 * a * k * (k + 1) + j * (k - 1) * k * (k + 1)

Init ==
  /\ m \in Int /\ r0 \in Int /\ a \in Int /\ j \in Int /\ acc0 \in Int
  /\ m >= 2 /\ 0 <= acc0 /\ acc0 < m
  /\ k = 0 /\ rate = r0 /\ accel = a /\ acc = acc0 /\ pos = 0

IndInit ==
  /\ m \in Int /\ r0 \in Int /\ a \in Int /\ j \in Int /\ acc0 \in Int
  /\ k \in Int /\ rate \in Int /\ accel \in Int /\ acc \in Int /\ pos \in Int
  /\ IndInv

Next ==
  LET nr == rate + accel IN
  /\ nr <= m - 1 /\ nr >= 1 - m            \* firmware-valid domain: |rate_k| <= MOD - 1
  /\ rate' = nr /\ accel' = accel + j /\ k' = k + 1
  /\ IF nr >= 0
     THEN IF acc + nr >= m THEN acc' = acc + nr - m /\ pos' = pos + 1 ELSE acc' = acc + nr /\ pos' = pos
     ELSE IF acc + nr < 0 THEN acc' = acc + nr + m /\ pos' = pos - 1 ELSE acc' = acc + nr /\ pos' = pos
  /\ UNCHANGED <<m, r0, a, j, acc0>>
=============================================================================
