---------------------------- MODULE StepperLeap ----------------------------
(* Closed forms of the Stepper machine, evaluated in BigInt so that TLC can     *)
(* decide moves of 2^32 ticks at the real modulus MOD = 2*B*B = 2^31.           *)
(* That these closed forms ARE the tick recurrence is checked three ways:       *)
(*  - E1: StepperLeapMC (B = 2, MOD = 8): equal to the stepped state at every    *)
(*        tick of every small instance (LeapRefinesTicks);                      *)
(*  - E2: Apalache, inductive, unbounded (StepperInd.tla);                       *)
(*  - G : every full-scale stepped vector is also judged through these forms.   *)
(* Command inputs r, a, j, c are native integers (|.| <= 2^31-1); the tick      *)
(* count K and all totals are BigInts.                                          *)
EXTENDS BigInt
LMm1 == (B * B - 1) + B * B           \* MOD - 1 without forming MOD
BMm1 == FromInt(LMm1)
Clear == -1
SignI(x) == IF x > 0 THEN 1 ELSE IF x < 0 THEN -1 ELSE 0
AbsN(x) == IF x < 0 THEN 0 - x ELSE x
TruncDivN(x, k) == IF x >= 0 THEN x \div k ELSE 0 - ((0 - x) \div k)
FloorDivN(n, d) ==                     \* floor(n/d), d # 0, native
  IF d > 0 THEN (IF n >= 0 THEN n \div d ELSE 0 - (((0 - n) + (d - 1)) \div d))
  ELSE (IF n <= 0 THEN (0 - n) \div (0 - d) ELSE 0 - ((n + ((0 - d) - 1)) \div (0 - d)))
One == FromInt(1)
InRangeL(x) == Cmp(Abs(x), BMm1) <= 0

AdjustN(a, j) == TruncDivN(j, 6) - TruncDivN(a, 2)
R0L(r, a, j) == Add(FromInt(r), FromInt(AdjustN(a, j)))
\* rate_K = r0 + a*K + j*K(K-1)/2
RateAtL(r, a, j, K) ==
  Add(Add(R0L(r, a, j), Mul(FromInt(a), K)), Mul(FromInt(j), DivExactSmall(Mul(K, Sub(K, One)), 2)))
AccelAtL(a, j, K) == Add(FromInt(a), Mul(FromInt(j), K))
ClearValueL(r, a, j) ==
  LET t1 == Add(R0L(r, a, j), FromInt(a)) IN
  IF t1.s < 0 THEN LMm1 ELSE IF t1.s > 0 THEN 0
  ELSE LET t2 == Add(FromInt(a), FromInt(j)) IN
       IF t2.s < 0 THEN LMm1 ELSE IF t2.s > 0 THEN 0 ELSE IF j < 0 THEN LMm1 ELSE 0
Acc0N(r, a, j, c) == IF c = Clear THEN ClearValueL(r, a, j) ELSE c
\* total_K = acc0 + r0*K + a*K(K+1)/2 + j*(K-1)K(K+1)/6
TotalAtL(r, a, j, c, K) ==
  LET kk1 == Mul(K, Add(K, One)) IN
  Add(Add(FromInt(Acc0N(r, a, j, c)), Mul(R0L(r, a, j), K)),
      Add(Mul(FromInt(a), DivExactSmall(kk1, 2)), Mul(FromInt(j), DivExactSmall(Mul(Sub(K, One), kk1), 6))))
PosAccAtL(r, a, j, c, K) == FloorDivModM(TotalAtL(r, a, j, c, K))     \* [q |-> position (BigInt), r |-> accumulator (native)]

\* integer ticks next to the real turning point of the rate parabola, 1/2 - a/j
\* (clamped so that f-1..f+2 is representable: a turning point beyond tick 2^31-3 cannot lie inside an in-range move,
\*  the rate at the clamped candidates is then already out of range by ~2^60)
VertexF(a, j) == LET f == FloorDivN(0 - a, j) IN IF f > LMm1 - 3 THEN LMm1 - 3 ELSE IF f < -2 THEN -2 ELSE f
VertexCands(a, j) == IF j = 0 THEN {} ELSE LET f == VertexF(a, j) IN {f - 1, f, f + 1, f + 2}
InMove(k, K) == k >= 1 /\ Cmp(FromInt(k), K) <= 0
\* the firmware-valid domain: every rate_k (k = 1..K) and every acceleration within +-(2^31-1)
DomainOK(r, a, j, K) ==
  /\ K.s > 0
  /\ InRangeL(RateAtL(r, a, j, One)) /\ InRangeL(RateAtL(r, a, j, K))
  /\ \A k \in VertexCands(a, j) : InMove(k, K) => InRangeL(RateAtL(r, a, j, FromInt(k)))
  /\ InRangeL(AccelAtL(a, j, K))
\* C02's domain is the signed 32-bit range itself: -2^31 is a legal rate / acceleration there (C01 and C17 say |.| <= 2^31-1)
BMin32 == Neg(Add(BMm1, One))
InRange32L(x) == Cmp(x, BMin32) >= 0 /\ Cmp(x, BMm1) <= 0
DomainOK32(r, a, j, K) ==
  /\ K.s > 0
  /\ InRange32L(RateAtL(r, a, j, One)) /\ InRange32L(RateAtL(r, a, j, K))
  /\ \A k \in VertexCands(a, j) : InMove(k, K) => InRange32L(RateAtL(r, a, j, FromInt(k)))
  /\ InRange32L(AccelAtL(a, j, K))
\* C17's helper exists to detect moves that exceed the rate limit, so its inputs may overshoot it: rates up to 16 * 2^31 are judged
BBig == Mul(FromInt(16), Add(BMm1, One))
InRangeBigL(x) == Cmp(Abs(x), BBig) <= 0
DomainPeak(r, a, j, K) ==
  /\ K.s > 0
  /\ InRangeBigL(RateAtL(r, a, j, One)) /\ InRangeBigL(RateAtL(r, a, j, K))
  /\ \A k \in VertexCands(a, j) : InMove(k, K) => InRangeBigL(RateAtL(r, a, j, FromInt(k)))
  /\ InRangeL(AccelAtL(a, j, K))
BMax(x, y) == IF Cmp(x, y) >= 0 THEN x ELSE y
\* true peak |rate| over ticks 1..K: a discrete parabola peaks at an end or next to its turning point
PeakL(r, a, j, K) ==
  LET ends == BMax(Abs(RateAtL(r, a, j, One)), Abs(RateAtL(r, a, j, K)))
      G(k) == IF InMove(k, K) THEN Abs(RateAtL(r, a, j, FromInt(k))) ELSE BZero IN
  IF j = 0 THEN ends
  ELSE LET f == VertexF(a, j) IN BMax(ends, BMax(BMax(G(f - 1), G(f)), BMax(G(f + 1), G(f + 2))))

(* ---- LM: motor steps taken in either direction after K ticks (jerk = 0) ---- *)
\* the first-tick rate is native (the caller checks DomainOK); the adjusted start rate r0 = rate_1 - a is not a per-tick rate and may
\* exceed 32 bits (r = +-(2^31-1) with an opposing acceleration), so nothing below forms it natively
DirN(r, a) == LET r1 == ToInt(Add(R0L(r, a, 0), FromInt(a))) IN IF r1 # 0 THEN SignI(r1) ELSE SignI(a)
Reverses(r, a) == a # 0 /\ DirN(r, a) # 0 /\ SignI(a) = 0 - DirN(r, a)
\* last tick whose rate still has the initial direction (or is zero): floor(r0 / -a) = 1 + floor(rate_1 / -a) since r0 = rate_1 - a
KRev(r, a) == LET r1 == ToInt(Add(R0L(r, a, 0), FromInt(a))) IN IF DirN(r, a) > 0 THEN 1 + (r1 \div (0 - a)) ELSE 1 + ((0 - r1) \div a)
CntAtL(r, a, c, K) ==
  LET p == PosAccAtL(r, a, 0, c, K).q IN
  IF ~Reverses(r, a) THEN Abs(p)
  ELSE LET kr == FromInt(KRev(r, a)) IN
       IF Cmp(K, kr) <= 0 THEN Abs(p)
       ELSE LET pr == PosAccAtL(r, a, 0, c, kr).q IN Add(Abs(pr), Abs(Sub(p, pr)))
\* T is the first tick at which cnt reaches `steps` (cnt is monotone, +1 at most per tick)
IsFirstTick(r, a, c, steps, K) ==
  /\ K.s > 0
  /\ CntAtL(r, a, c, K) = FromInt(steps)
  /\ (K = One \/ Cmp(CntAtL(r, a, c, Sub(K, One)), FromInt(steps)) < 0)
=============================================================================
