--------------------------- MODULE StepperLeapMC ---------------------------
(* E1: the BigInt closed forms (limb base 2, MOD = 8) equal the stepped state *)
(* at every tick of every small instance.                                      *)
EXTENDS StepperMC
LP == INSTANCE StepperLeap WITH B <- 2
K == LP!FromInt(tick)
LeapPosAcc == (tick >= 1) =>
  LET pa == LP!PosAccAtL(cmd.r, cmd.a, cmd.j, cmd.c, K) IN pa.q = LP!FromInt(pos) /\ pa.r = acc
LeapRate == (tick >= 1) => LP!RateAtL(cmd.r, cmd.a, cmd.j, K) = LP!FromInt(rate)
LeapClear == LP!Acc0N(cmd.r, cmd.a, cmd.j, cmd.c) = acc0
LeapDomain == (tick >= 1) => LP!DomainOK(cmd.r, cmd.a, cmd.j, K)       \* every stepped state is in the leap's domain
LeapPeak == (tick >= 1) => LP!PeakL(cmd.r, cmd.a, cmd.j, K) = LP!FromInt(peak)
LeapCnt == (tick >= 1 /\ cmd.j = 0) => LP!CntAtL(cmd.r, cmd.a, cmd.c, K) = LP!FromInt(cnt)
LeapFirstTick == (tick >= 1 /\ cmd.j = 0 /\ cnt >= 1) =>
  (stepped <=> LP!IsFirstTick(cmd.r, cmd.a, cmd.c, cnt, K))
=============================================================================
