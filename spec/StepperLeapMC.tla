--------------------------- MODULE StepperLeapMC ---------------------------
(* E1: the BigInt closed forms (limb base 2, MOD = 8) equal the stepped state *)
(* at every tick of every small instance.                                      *)
EXTENDS StepperMC
LP == INSTANCE StepperLeap WITH B <- 2
K == LP!FromInt(tick)
LeapPosAcc == (tick >= 1) =>
  LET pa == LP!PosAccAtL(cmd.r, cmd.a, cmd.j, cmd.c, K) IN pa.q = LP!FromInt(pos) /\ pa.r = acc
LeapRate == (tick >= 1) => LP!RateAtL(cmd.r, cmd.a, cmd.j, K) = LP!FromInt(rate)
LeapClear == LP!Acc0N(cmd.r, cmd.a, cmd.j, cmd.c) = acc0
LeapDomain == (tick >= 1) => LP!DomainOK(cmd.r, cmd.a, cmd.j, K)       \* every stepped state is in the leap's domain
\* ... and conversely: the three domain guards of the judge (C01/C03/C17: |rate| <= MOD-1; C02: the signed range itself; C17's corollary:
\* rates up to 16*MOD) accept a move of T ticks exactly when every tick 1..T satisfies the bound (brute force over the ticks)
RateN(k) == LP!ToInt(LP!RateAtL(cmd.r, cmd.a, cmd.j, LP!FromInt(k)))
AccelN(k) == cmd.a + cmd.j * k
BruteR(T, lo, hi) == \A k \in 1..T : lo <= RateN(k) /\ RateN(k) <= hi
BruteA(T, lo) == \A k \in 1..T : lo <= AccelN(k) /\ AccelN(k) <= Mm1
DomainExact == (tick = 1) => \A T \in 1..MaxT : LET KT == LP!FromInt(T) IN
  /\ LP!DomainOK(cmd.r, cmd.a, cmd.j, KT) <=> (BruteR(T, 0 - Mm1, Mm1) /\ BruteA(T, 0 - Mm1))
  /\ LP!DomainOK32(cmd.r, cmd.a, cmd.j, KT) <=> (BruteR(T, (0 - Mm1) - 1, Mm1) /\ BruteA(T, (0 - Mm1) - 1))
  /\ LP!DomainPeak(cmd.r, cmd.a, cmd.j, KT) <=> (BruteR(T, 0 - 16 * (Mm1 + 1), 16 * (Mm1 + 1)) /\ BruteA(T, 0 - Mm1))
LeapPeak == (tick >= 1) => LP!PeakL(cmd.r, cmd.a, cmd.j, K) = LP!FromInt(peak)
LeapCnt == (tick >= 1 /\ cmd.j = 0) => LP!CntAtL(cmd.r, cmd.a, cmd.c, K) = LP!FromInt(cnt)
LeapFirstTick == (tick >= 1 /\ cmd.j = 0 /\ cnt >= 1) =>
  (stepped <=> LP!IsFirstTick(cmd.r, cmd.a, cmd.c, cnt, K))
=============================================================================
