SPECIFICATION Spec
CONSTANTS
  Mm1 = 7
  Rates <- R7
  Accels <- R7
  Jerks <- R3
  Accs <- A0
  NearClear = FALSE
  MaxT = 8
  MaxCnt = 100
INVARIANT DomainExact
CHECK_DEADLOCK FALSE
