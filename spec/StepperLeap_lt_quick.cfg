SPECIFICATION Spec
CONSTANTS
  Mm1 = 7
  Rates <- R7
  Accels <- R7
  Jerks <- Zero1
  Accs <- A7
  NearClear = FALSE
  MaxT = 9
  MaxCnt = 100
INVARIANT LeapPosAcc
INVARIANT LeapRate
INVARIANT LeapClear
INVARIANT LeapDomain
INVARIANT LeapCnt
INVARIANT LeapFirstTick
CHECK_DEADLOCK FALSE
