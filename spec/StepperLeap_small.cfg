SPECIFICATION Spec
CONSTANTS
  Mm1 = 7
  Rates <- R7
  Accels <- R7
  Jerks <- R3
  Accs <- A7
  NearClear = FALSE
  MaxT = 10
  MaxCnt = 100
INVARIANT LeapPosAcc
INVARIANT LeapRate
INVARIANT LeapClear
INVARIANT LeapDomain
INVARIANT LeapPeak
INVARIANT LeapCnt
INVARIANT LeapFirstTick
CHECK_DEADLOCK FALSE
