SPECIFICATION Spec
CONSTANTS
  Mm1 = 7
  Rates <- R7
  Accels <- R3
  Jerks <- R3
  Accs <- A7
  NearClear = FALSE
  MaxT = 8
  MaxCnt = 100
INVARIANT LeapPosAcc
INVARIANT LeapRate
INVARIANT LeapClear
INVARIANT LeapDomain
INVARIANT LeapPeak
CHECK_DEADLOCK FALSE
