SPECIFICATION Spec
CONSTANTS
  Mm1 = 7
  Rates <- R7
  Accels <- R7
  Jerks <- R3
  Accs <- A7
  NearClear = FALSE
  MaxT = 12
  MaxCnt = 100
INVARIANT LeapPosAcc
INVARIANT LeapRate
INVARIANT LeapClear
INVARIANT LeapDomain
INVARIANT LeapCnt
INVARIANT LeapPeak
INVARIANT LeapFirstTick
CHECK_DEADLOCK FALSE
