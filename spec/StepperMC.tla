----------------------------- MODULE StepperMC -----------------------------
(* Input universes for Stepper (cfg files cannot hold negative numbers).     *)
EXTENDS Stepper
Sym(S) == S \cup {0 - x : x \in S}
Rng(n) == (0 - n)..n
\* small universes
R7 == Rng(7)   R3 == Rng(3)   R15 == Rng(15)   R5 == Rng(5)
A7 == (-1)..7  A15 == (-1)..15  A0 == {0}
\* full scale (MOD = 2^31): boundary magnitudes
P(k) == 2 ^ k
Big == 2147483647
MagsRich == {0, 1, 2, 3, 5, 255, P(16) - 1, P(16), P(24) + 1, P(28), P(29) - 1, P(29), P(30) - 1, P(30), P(30) + 1,
             3 * P(29), Big - P(28), Big - 1, Big}
MagsMid  == {0, 1, 2, 3, 7, P(16), P(27) + 1, P(29), P(30) - 1, P(30), Big - 1, Big}
MagsFew  == {0, 1, 3, P(20) + 1, P(29), P(30), Big}
JerksFew == {0, 1, 2, 6, 7, 12, P(16) + 1, P(26)}
FullRatesRich == Sym(MagsRich)
FullRatesMid == Sym(MagsMid)
FullRatesFew == Sym(MagsFew)
FullJerks == Sym(JerksFew)
FullJerksFew == Sym({0, 1, 6, 7, P(24) + 5})
FullAccs == {-1, 0, 1, P(30), Big - 1, Big}
FullAccsFew == {-1, 0, P(30) + 1, Big}
Zero1 == {0}
=============================================================================
