SPECIFICATION TSpec
CONSTANT B = 32768
CHECK_DEADLOCK FALSE
