---------------------------- MODULE StepperTrace ----------------------------
(* V direction for C01/C02/C03/C17 (and the second judge of the G vectors):    *)
(* events recorded from ebb_calc are judged by the BigInt closed forms of the  *)
(* firmware recurrence at the real modulus 2^31.  One state per event; the     *)
(* verdict is total: "ok", "skip" (outside the statement's domain),            *)
(* "badwitness" (harness error, never a violation) or the violated clause.     *)
(* Numbers that may exceed 31 bits (tick counts, positions, any returned       *)
(* value) arrive as BigInt records; command inputs are native.                 *)
EXTENDS StepperLeap, Json, IOUtils, TLC
Trace == ndJsonDeserialize(IOEnv.TRACE_FILE)
VARIABLES i, verdict

AccOK(c) == c = Clear \/ (0 <= c /\ c <= LMm1)
BI(x) == [s |-> x.s, d |-> x.d]          \* a logged BigInt

JudgeMove(e, j, tag) ==                   \* lt / t3 : (position, accumulator) after T ticks
  IF ~(AccOK(e.c) /\ (IF tag = "t3" THEN DomainOK32(e.r, e.a, j, BI(e.T)) ELSE DomainOK(e.r, e.a, j, BI(e.T)))) THEN "skip"
  ELSE LET pa == PosAccAtL(e.r, e.a, j, e.c, BI(e.T)) IN
       IF e.raised THEN tag \o ".raises"
       ELSE IF ~e.isint THEN tag \o ".not_integer"
       ELSE IF BI(e.pos) # pa.q THEN tag \o ".position"
       ELSE IF BI(e.acc) # FromInt(pa.r) THEN tag \o ".accumulator"
       ELSE "ok"

JudgeRate(e) ==
  IF ~DomainOK32(e.r, e.a, e.j, BI(e.T)) THEN "skip"
  ELSE IF e.raised THEN "rate.raises"
  ELSE IF ~e.isint THEN "rate.not_integer"
  ELSE IF BI(e.val) # RateAtL(e.r, e.a, e.j, BI(e.T)) THEN "rate.end_of_move" ELSE "ok"

JudgePeak(e) ==
  IF ~DomainPeak(e.r, e.a, e.j, BI(e.T)) THEN "skip"
  ELSE LET K == BI(e.T)
           m == BI(e.val)
           pk == PeakL(e.r, e.a, e.j, K) IN
       IF DomainOK(e.r, e.a, e.j, K) THEN           \* a valid move: the full bracket
         (IF e.raised THEN "peak.raises"
          ELSE IF ~e.isint THEN "peak.not_integer"
          ELSE IF Cmp(m, pk) > 0 THEN "peak.exceeds_true_peak"
          ELSE IF Cmp(m, Abs(RateAtL(e.r, e.a, e.j, One))) < 0 THEN "peak.below_first_tick"
          ELSE IF Cmp(m, Abs(RateAtL(e.r, e.a, e.j, K))) < 0 THEN "peak.below_last_tick"
          ELSE IF Cmp(Sub(pk, m), FromInt(AbsN(e.j))) > 0 THEN "peak.short_by_more_than_jerk"
          ELSE "ok")
       \* a move that leaves the rate limit is not "valid": the statement then promises only its last sentence - what the helper reports
       \* as within the limit exceeds it by at most one jerk increment (refusing to answer, or any answer above the limit, is fine)
       ELSE IF e.raised \/ ~e.isint THEN "ok"
       ELSE IF Cmp(Abs(m), BMm1) <= 0 /\ Cmp(Sub(pk, BMm1), FromInt(AbsN(e.j))) > 0 THEN "peak.reported_within_limit_but_exceeds_it"
       ELSE "ok"

JudgeLM(e) ==
  IF ~AccOK(e.c) THEN "skip"
  ELSE IF e.steps = 0 \/ (e.r = 0 /\ e.a = 0) \/ (e.steps < 0 /\ e.r < 0) THEN
       (IF e.raised THEN "lm.raises" ELSE IF e.isint /\ BI(e.T) = BZero /\ BI(e.pos) = BZero /\ BI(e.acc) = BZero THEN "ok" ELSE "lm.cannot_move_reports_zero")
  ELSE LET s == AbsN(e.steps)
           rr == IF e.steps < 0 THEN 0 - e.r ELSE e.r
           aa == IF e.steps < 0 THEN 0 - e.a ELSE e.a IN
       IF ~e.hasw THEN "skip"                      \* budget never completed inside the valid domain
       ELSE LET W == BI(e.Tw) IN
            IF ~(DomainOK(rr, aa, 0, W) /\ IsFirstTick(rr, aa, e.c, s, W)) THEN "badwitness"
            ELSE LET pa == PosAccAtL(rr, aa, 0, e.c, W) IN
                 IF e.raised THEN "lm.raises"
                 ELSE IF ~e.isint THEN "lm.not_integer"
                 ELSE IF BI(e.T) # W THEN "lm.duration_is_first_tick"
                 ELSE IF BI(e.pos) # pa.q THEN "lm.position"
                 ELSE IF BI(e.acc) # FromInt(pa.r) THEN "lm.accumulator"
                 ELSE IF e.ltbad THEN "lm.feeds_timed_move"
                 ELSE IF e.haslt /\ (BI(e.ltpos) # pa.q \/ BI(e.ltacc) # FromInt(pa.r)) THEN "lm.feeds_timed_move"
                 ELSE "ok"

Judge(e) ==
  CASE e.fn = "lt" -> JudgeMove(e, 0, "lt")
    [] e.fn = "t3" -> JudgeMove(e, e.j, "t3")
    [] e.fn = "rate" -> JudgeRate(e)
    [] e.fn = "max" -> JudgePeak(e)
    [] e.fn = "lm" -> JudgeLM(e)
    [] OTHER -> "badevent"

TInit == i = 0 /\ verdict = "init"
TNext == i < Len(Trace) /\ i' = i + 1 /\ verdict' = Judge(Trace[i + 1])
TSpec == TInit /\ [][TNext]_<<i, verdict>>
=============================================================================
