SPECIFICATION Spec
CONSTANTS
  Mm1 = 2147483647
  Rates <- FullRatesMid
  Accels <- FullRatesMid
  Jerks <- Zero1
  Accs <- FullAccs
  NearClear = TRUE
  MaxT = 40
  MaxCnt = 8
INVARIANT AccInRange
PROPERTY LMFirstTick
CHECK_DEADLOCK FALSE
