SPECIFICATION Spec
CONSTANTS
  Mm1 = 2147483647
  Rates <- FullRatesRich
  Accels <- FullRatesRich
  Jerks <- Zero1
  Accs <- FullAccs
  NearClear = TRUE
  MaxT = 160
  MaxCnt = 40
INVARIANT AccInRange
PROPERTY LMFirstTick
CHECK_DEADLOCK FALSE
