SPECIFICATION Spec
CONSTANTS
  Mm1 = 2147483647
  Rates <- FullRatesRich
  Accels <- FullRatesRich
  Jerks <- Zero1
  Accs <- FullAccs
  NearClear = TRUE
  MaxT = 48
  MaxCnt = 1000
INVARIANT AccInRange
INVARIANT ClearRule
PROPERTY OneStepPerTick
CHECK_DEADLOCK FALSE
