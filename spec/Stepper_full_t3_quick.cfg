SPECIFICATION Spec
CONSTANTS
  Mm1 = 2147483647
  Rates <- FullRatesFew
  Accels <- FullRatesFew
  Jerks <- FullJerksFew
  Accs <- FullAccsFew
  NearClear = TRUE
  MaxT = 10
  MaxCnt = 1000
INVARIANT AccInRange
INVARIANT ClearRule
INVARIANT PeakIsMax
CHECK_DEADLOCK FALSE
