SPECIFICATION Spec
CONSTANTS
  Mm1 = 2147483647
  Rates <- FullRatesMid
  Accels <- FullRatesMid
  Jerks <- FullJerks
  Accs <- FullAccs
  NearClear = TRUE
  MaxT = 24
  MaxCnt = 1000
INVARIANT AccInRange
INVARIANT ClearRule
INVARIANT PeakIsMax
CHECK_DEADLOCK FALSE
