SPECIFICATION Spec
CONSTANTS
  Mm1 = 7
  Rates <- R7
  Accels <- R7
  Jerks <- R3
  Accs <- A7
  NearClear = FALSE
  MaxT = 10
  MaxCnt = 100
INVARIANT AccInRange
INVARIANT PeakIsMax
INVARIANT ClearRule
INVARIANT ClosedFormPos
INVARIANT ClosedFormRate
INVARIANT ClosedFormAccel
PROPERTY OneStepPerTick
PROPERTY LMFirstTick
CHECK_DEADLOCK FALSE
