SPECIFICATION Spec
CONSTANTS
  Mm1 = 15
  Rates <- R15
  Accels <- R7
  Jerks <- R5
  Accs <- Zero1
  NearClear = FALSE
  MaxT = 14
  MaxCnt = 1000
INVARIANT AccInRange
INVARIANT PeakIsMax
INVARIANT ClosedFormPos
INVARIANT ClosedFormRate
INVARIANT ClosedFormAccel
INVARIANT MaxRateRefinesBracket
CHECK_DEADLOCK FALSE
