------------------------------ MODULE TextFmt ------------------------------
(* E1/G machine for C20: every string over the alphabet up to MaxLen and a     *)
(* boundary set of durations.                                                   *)
EXTENDS TextOps, TLC
CONSTANTS Alphabet, MaxLen, Alphabet2, MaxLen2, Secs
VARIABLES kind, s, esc, dur
vars == <<kind, s, esc, dur>>
MsSet == {0, 1, 499, 500, 501, 999}
Init == \/ /\ kind = "text" /\ dur = <<0, 0>>
           /\ \E k \in 0..MaxLen : s \in [1..k -> Alphabet]
           /\ esc = Esc(s)
        \/ /\ kind = "text" /\ dur = <<0, 0>>
           /\ \E k \in (MaxLen + 1)..MaxLen2 : s \in [1..k -> Alphabet2]
           /\ esc = Esc(s)
        \/ /\ kind = "dur" /\ s = <<>> /\ esc = <<>>
           /\ dur \in Secs \X MsSet
Next == FALSE /\ UNCHANGED vars
Spec == Init /\ [][Next]_vars
PassesEqualTransducer == (kind = "text") => FivePasses(s) = esc
UnescEscIsIdentity == (kind = "text") => JudgeEscape(s, esc) = "ok"
\* the microsecond statement restricted to whole milliseconds is the millisecond statement
UsAgreesWithMs == (kind = "dur") => \A R \in RoundedSet(dur[1], dur[2]) :
   LET p == FormatImpl(dur[1], dur[2], R) IN JudgeDurationUs(dur[1], dur[2] * 1000, p) = JudgeDuration(dur[1], dur[2], p)
FormatRefines == (kind = "dur") => \A R \in RoundedSet(dur[1], dur[2]) : JudgeDuration(dur[1], dur[2], FormatImpl(dur[1], dur[2], R)) = "ok"
=============================================================================
