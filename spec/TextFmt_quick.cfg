SPECIFICATION Spec
CONSTANTS
  Alphabet <- AlphaFull
  MaxLen = 3
  Alphabet2 <- AlphaTiny
  MaxLen2 = 5
  Secs <- SecsAll
INVARIANT PassesEqualTransducer
INVARIANT UnescEscIsIdentity
INVARIANT FormatRefines
INVARIANT UsAgreesWithMs
CHECK_DEADLOCK FALSE
