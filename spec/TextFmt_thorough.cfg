SPECIFICATION Spec
CONSTANTS
  Alphabet <- AlphaFull
  MaxLen = 4
  Alphabet2 <- AlphaCore
  MaxLen2 = 6
  Secs <- SecsAll
INVARIANT PassesEqualTransducer
INVARIANT UnescEscIsIdentity
INVARIANT FormatRefines
INVARIANT UsAgreesWithMs
CHECK_DEADLOCK FALSE
