------------------------------ MODULE TextOps ------------------------------
(* C20 - text_utils.xml_escape and text_utils.format_hms.                      *)
(* Text is a sequence of one-character strings.                                 *)
EXTENDS Integers, Sequences

Specials == {"&", "<", ">", "\"", "'"}
Entity(c) == CASE c = "&" -> <<"&", "a", "m", "p", ";">>
               [] c = "<" -> <<"&", "l", "t", ";">>
               [] c = ">" -> <<"&", "g", "t", ";">>
               [] c = "\"" -> <<"&", "q", "u", "o", "t", ";">>
               [] c = "'" -> <<"&", "a", "p", "o", "s", ";">>
               [] OTHER -> <<c>>
(* ---------------- Abstract ---------------- *)
\* the single-pass transducer
RECURSIVE Esc(_)
Esc(s) == IF s = <<>> THEN <<>> ELSE Entity(Head(s)) \o Esc(Tail(s))
StartsWith(t, p) == Len(t) >= Len(p) /\ SubSeq(t, 1, Len(p)) = p
\* ---- references ----
\* A reference is one of the five named entities or a numeric character reference &#d+; / &#xh+; to ANY character (an escaper may also
\* protect characters the parser would otherwise normalise, e.g. &#13; for a carriage return, or spell & as &#038;).
\* Characters of the escaping alphabet are themselves; every other character is the opaque token "uXXXX" (its code point), as the harness
\* renders it, so a numeric reference decodes to exactly the token the harness uses for that character.
PlainTable == {
   <<"&", 38>>, <<"<", 60>>, <<">", 62>>, <<"\"", 34>>, <<"'", 39>>, <<"a", 97>>, <<"m", 109>>, <<"p", 112>>,
   <<";", 59>>, <<"#", 35>>, <<"l", 108>>, <<"t", 116>>, <<"g", 103>>, <<"q", 113>>, <<"u", 117>>, <<"o", 111>>,
   <<"s", 115>>, <<"x", 120>>, <<"0", 48>>, <<"1", 49>>, <<"2", 50>>, <<"3", 51>>, <<"4", 52>>, <<"5", 53>>,
   <<"6", 54>>, <<"7", 55>>, <<"8", 56>>, <<"9", 57>>, <<"c", 99>>, <<"C", 67>>, <<"e", 101>>, <<"E", 69>>,
   <<" ", 32>>, <<"b", 98>>, <<"d", 100>>, <<"f", 102>>, <<"A", 65>>, <<"B", 66>>, <<"D", 68>>, <<"F", 70>> }
HexVal(c) == CASE c = "0" -> 0 [] c = "1" -> 1 [] c = "2" -> 2 [] c = "3" -> 3 [] c = "4" -> 4 [] c = "5" -> 5 [] c = "6" -> 6 [] c = "7" -> 7
               [] c = "8" -> 8 [] c = "9" -> 9 [] c \in {"a", "A"} -> 10 [] c \in {"b", "B"} -> 11 [] c \in {"c", "C"} -> 12
               [] c \in {"d", "D"} -> 13 [] c \in {"e", "E"} -> 14 [] c \in {"f", "F"} -> 15 [] OTHER -> -1
HexDigit(k) == CASE k = 0 -> "0" [] k = 1 -> "1" [] k = 2 -> "2" [] k = 3 -> "3" [] k = 4 -> "4" [] k = 5 -> "5" [] k = 6 -> "6" [] k = 7 -> "7"
                 [] k = 8 -> "8" [] k = 9 -> "9" [] k = 10 -> "A" [] k = 11 -> "B" [] k = 12 -> "C" [] k = 13 -> "D" [] k = 14 -> "E" [] k = 15 -> "F"
RECURSIVE HexStr(_, _)
HexStr(n, w) == IF n = 0 /\ w <= 0 THEN "" ELSE HexStr(n \div 16, w - 1) \o HexDigit(n % 16)
TokenOf(n) == IF \E pr \in PlainTable : pr[2] = n THEN (CHOOSE pr \in PlainTable : pr[2] = n)[1] ELSE "u" \o HexStr(n, 4)
MaxCode == 1114111
RECURSIVE NumVal(_, _, _)
NumVal(ds, base, acc) ==
  IF ds = <<>> THEN acc
  ELSE LET v == HexVal(Head(ds)) IN
       IF v < 0 \/ v >= base \/ acc > MaxCode THEN -1 ELSE NumVal(Tail(ds), base, acc * base + v)
SemiPos(t) == IF \E k \in 1..Len(t) : t[k] = ";" THEN CHOOSE k \in 1..Len(t) : t[k] = ";" /\ \A m \in 1..(k - 1) : t[m] # ";" ELSE 0
\* t starts with "&": <<length of the reference, the character it stands for>>, or <<0, "">> when it is not a reference
RefAt(t) ==
  IF \E c \in Specials : StartsWith(t, Entity(c)) THEN LET c == CHOOSE c2 \in Specials : StartsWith(t, Entity(c2)) IN <<Len(Entity(c)), c>>
  ELSE LET k == SemiPos(t) IN
       IF k < 4 \/ t[2] # "#" THEN <<0, "">>
       ELSE LET hex == t[3] = "x"
                ds == SubSeq(t, IF hex THEN 4 ELSE 3, k - 1)
                n == IF ds = <<>> THEN -1 ELSE NumVal(ds, IF hex THEN 16 ELSE 10, 0) IN          \* any number of leading zeros; NumVal stops above MaxCode
            IF n < 1 \/ n > MaxCode THEN <<0, "">> ELSE <<k, TokenOf(n)>>
\* decoder: <<ok, text>> ; ok = FALSE when a bare special or something that is not a reference is met
RECURSIVE Unesc(_)
Unesc(t) ==
  IF t = <<>> THEN <<TRUE, <<>>>>
  ELSE IF Head(t) = "&" THEN
       LET h == RefAt(t) IN
       IF h[1] = 0 THEN <<FALSE, <<>>>>
       ELSE LET rest == Unesc(SubSeq(t, h[1] + 1, Len(t))) IN <<rest[1], <<h[2]>> \o rest[2]>>
  ELSE IF Head(t) \in Specials THEN <<FALSE, <<>>>>
  ELSE LET rest == Unesc(Tail(t)) IN <<rest[1], <<Head(t)>> \o rest[2]>>
\* the statement, for an observed output o of input s
JudgeEscape(s, o) ==
  LET u == Unesc(o) IN
  IF ~u[1] THEN "escape.no_special_outside_entities"
  ELSE IF u[2] # s THEN "escape.decodes_to_original"
  ELSE "ok"

(* ---------------- Impl-shaped: five sequential replace passes ---------------- *)
RECURSIVE Replace(_, _, _)
Replace(s, c, ent) == IF s = <<>> THEN <<>> ELSE (IF Head(s) = c THEN ent ELSE <<Head(s)>>) \o Replace(Tail(s), c, ent)
FivePasses(s) ==
  Replace(Replace(Replace(Replace(Replace(s, "&", Entity("&")), "<", Entity("<")), ">", Entity(">")), "\"", Entity("\"")), "'", Entity("'"))

(* ---------------- durations ---------------- *)
\* a duration is <<sec, ms>>, ms in 0..999.  Rounded seconds: both neighbours at exactly .5
RoundedSet(sec, ms) == IF ms < 500 THEN {sec} ELSE IF ms > 500 THEN {sec + 1} ELSE {sec, sec + 1}
\* what a printed duration looks like after lexing: [form, a, b, c]
\*   "msec" : a.bbb       "s" : aa     "ms" : a:bb     "hms" : a:bb:cc
JudgeDuration(sec, ms, p) ==
  IF sec < 10 THEN
     (IF p.form = "msec" /\ p.a = sec /\ p.b = ms THEN "ok" ELSE "hms.under_10s_to_the_millisecond")
  ELSE IF p.form \notin {"s", "ms", "hms"} THEN "hms.form_chosen_by_rounded_value"
  ELSE LET total == IF p.form = "s" THEN p.a ELSE IF p.form = "ms" THEN p.a * 60 + p.b ELSE p.a * 3600 + p.b * 60 + p.c
           want == IF total < 60 THEN "s" ELSE IF total < 3600 THEN "ms" ELSE "hms" IN
       IF total \notin RoundedSet(sec, ms) THEN "hms.encodes_rounded_duration"
       ELSE IF p.form # want THEN "hms.form_chosen_by_rounded_value"
       ELSE IF p.form = "ms" /\ p.b > 59 THEN "hms.fields_00_59"
       ELSE IF p.form = "hms" /\ (p.b > 59 \/ p.c > 59) THEN "hms.fields_00_59"
       ELSE IF ~p.two THEN "hms.fields_00_59"                    \* minutes/seconds fields are two digits wide
       ELSE "ok"
\* the same statement for a duration given to the microsecond, <<sec, us>> with us in 0..999999 (durations are real numbers, not whole
\* milliseconds): under 10 s the printed value is the duration rounded to the millisecond (9.9996 s prints as 10.000 - it is still "under 10 s")
RoundedMsSet(sec, us) == LET m == sec * 1000 + us \div 1000  r == us % 1000 IN IF r < 500 THEN {m} ELSE IF r > 500 THEN {m + 1} ELSE {m, m + 1}
RoundedSetUs(sec, us) == IF us < 500000 THEN {sec} ELSE IF us > 500000 THEN {sec + 1} ELSE {sec, sec + 1}
JudgeDurationUs(sec, us, p) ==
  IF sec < 10 THEN
     (IF p.form = "msec" /\ p.b < 1000 /\ (p.a * 1000 + p.b) \in RoundedMsSet(sec, us) THEN "ok" ELSE "hms.under_10s_to_the_millisecond")
  ELSE IF p.form \notin {"s", "ms", "hms"} THEN "hms.form_chosen_by_rounded_value"
  ELSE LET total == IF p.form = "s" THEN p.a ELSE IF p.form = "ms" THEN p.a * 60 + p.b ELSE p.a * 3600 + p.b * 60 + p.c
           want == IF total < 60 THEN "s" ELSE IF total < 3600 THEN "ms" ELSE "hms" IN
       IF total \notin RoundedSetUs(sec, us) THEN "hms.encodes_rounded_duration"
       ELSE IF p.form # want THEN "hms.form_chosen_by_rounded_value"
       ELSE IF p.form = "ms" /\ p.b > 59 THEN "hms.fields_00_59"
       ELSE IF p.form = "hms" /\ (p.b > 59 \/ p.c > 59) THEN "hms.fields_00_59"
       ELSE IF ~p.two THEN "hms.fields_00_59"
       ELSE "ok"
\* impl-shaped: the code's branch structure on the rounded value R
FormatImpl(sec, ms, R) ==
  IF sec < 10 THEN [form |-> "msec", a |-> sec, b |-> ms, c |-> 0, two |-> TRUE]
  ELSE IF R < 60 THEN [form |-> "s", a |-> R, b |-> 0, c |-> 0, two |-> TRUE]
  ELSE IF R < 3600 THEN [form |-> "ms", a |-> R \div 60, b |-> R % 60, c |-> 0, two |-> TRUE]
  ELSE [form |-> "hms", a |-> (R \div 60) \div 60, b |-> (R \div 60) % 60, c |-> R % 60, two |-> TRUE]
=============================================================================
