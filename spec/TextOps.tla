------------------------------ MODULE TextOps ------------------------------
(* C20 - text_utils.xml_escape and text_utils.format_hms.                      *)
(* Text is a sequence of one-character strings.                                 *)
EXTENDS Integers, Sequences

Specials == {"&", "<", ">", "\"", "'"}
Entity(c) == CASE c = "&" -> <<"&", "a", "m", "p", ";">>
               [] c = "<" -> <<"&", "l", "t", ";">>
               [] c = ">" -> <<"&", "g", "t", ";">>
               [] c = "\"" -> <<"&", "q", "u", "o", "t", ";">>
               [] c = "'" -> <<"&", "a", "p", "o", "s", ";">>
               [] OTHER -> <<c>>
(* ---------------- Abstract ---------------- *)
\* the single-pass transducer
RECURSIVE Esc(_)
Esc(s) == IF s = <<>> THEN <<>> ELSE Entity(Head(s)) \o Esc(Tail(s))
StartsWith(t, p) == Len(t) >= Len(p) /\ SubSeq(t, 1, Len(p)) = p
Named == {<<"&">>, <<"<">>, <<">">>, <<"\"">>, <<"'">>}
\* numeric character references an escaper might legitimately use for the five specials
NumRef(c) == CASE c = "&" -> {<<"&", "#", "3", "8", ";">>, <<"&", "#", "x", "2", "6", ";">>}
               [] c = "<" -> {<<"&", "#", "6", "0", ";">>, <<"&", "#", "x", "3", "c", ";">>, <<"&", "#", "x", "3", "C", ";">>}
               [] c = ">" -> {<<"&", "#", "6", "2", ";">>, <<"&", "#", "x", "3", "e", ";">>, <<"&", "#", "x", "3", "E", ";">>}
               [] c = "\"" -> {<<"&", "#", "3", "4", ";">>, <<"&", "#", "x", "2", "2", ";">>}
               [] c = "'" -> {<<"&", "#", "3", "9", ";">>, <<"&", "#", "x", "2", "7", ";">>}
Refs(c) == {Entity(c)} \cup NumRef(c)
\* decoder: <<ok, text>> ; ok = FALSE when a bare special or an unknown reference is met
RECURSIVE Unesc(_)
Unesc(t) ==
  IF t = <<>> THEN <<TRUE, <<>>>>
  ELSE IF Head(t) = "&" THEN
       LET hits == {<<c, r>> \in {<<c2, r2>> \in Specials \X UNION {Refs(c3) : c3 \in Specials} : r2 \in Refs(c2)} : StartsWith(t, r)} IN
       IF hits = {} THEN <<FALSE, <<>>>>
       ELSE LET h == CHOOSE x \in hits : TRUE
                rest == Unesc(SubSeq(t, Len(h[2]) + 1, Len(t))) IN
            <<rest[1], <<h[1]>> \o rest[2]>>
  ELSE IF Head(t) \in Specials THEN <<FALSE, <<>>>>
  ELSE LET rest == Unesc(Tail(t)) IN <<rest[1], <<Head(t)>> \o rest[2]>>
\* the statement, for an observed output o of input s
JudgeEscape(s, o) ==
  LET u == Unesc(o) IN
  IF ~u[1] THEN "escape.no_special_outside_entities"
  ELSE IF u[2] # s THEN "escape.decodes_to_original"
  ELSE "ok"

(* ---------------- Impl-shaped: five sequential replace passes ---------------- *)
RECURSIVE Replace(_, _, _)
Replace(s, c, ent) == IF s = <<>> THEN <<>> ELSE (IF Head(s) = c THEN ent ELSE <<Head(s)>>) \o Replace(Tail(s), c, ent)
FivePasses(s) ==
  Replace(Replace(Replace(Replace(Replace(s, "&", Entity("&")), "<", Entity("<")), ">", Entity(">")), "\"", Entity("\"")), "'", Entity("'"))

(* ---------------- durations ---------------- *)
\* a duration is <<sec, ms>>, ms in 0..999.  Rounded seconds: both neighbours at exactly .5
RoundedSet(sec, ms) == IF ms < 500 THEN {sec} ELSE IF ms > 500 THEN {sec + 1} ELSE {sec, sec + 1}
\* what a printed duration looks like after lexing: [form, a, b, c]
\*   "msec" : a.bbb       "s" : aa     "ms" : a:bb     "hms" : a:bb:cc
JudgeDuration(sec, ms, p) ==
  IF sec < 10 THEN
     (IF p.form = "msec" /\ p.a = sec /\ p.b = ms THEN "ok" ELSE "hms.under_10s_to_the_millisecond")
  ELSE IF p.form \notin {"s", "ms", "hms"} THEN "hms.form_chosen_by_rounded_value"
  ELSE LET total == IF p.form = "s" THEN p.a ELSE IF p.form = "ms" THEN p.a * 60 + p.b ELSE p.a * 3600 + p.b * 60 + p.c
           want == IF total < 60 THEN "s" ELSE IF total < 3600 THEN "ms" ELSE "hms" IN
       IF total \notin RoundedSet(sec, ms) THEN "hms.encodes_rounded_duration"
       ELSE IF p.form # want THEN "hms.form_chosen_by_rounded_value"
       ELSE IF p.form = "ms" /\ p.b > 59 THEN "hms.fields_00_59"
       ELSE IF p.form = "hms" /\ (p.b > 59 \/ p.c > 59) THEN "hms.fields_00_59"
       ELSE IF ~p.two THEN "hms.fields_00_59"                    \* minutes/seconds fields are two digits wide
       ELSE "ok"
\* impl-shaped: the code's branch structure on the rounded value R
FormatImpl(sec, ms, R) ==
  IF sec < 10 THEN [form |-> "msec", a |-> sec, b |-> ms, c |-> 0, two |-> TRUE]
  ELSE IF R < 60 THEN [form |-> "s", a |-> R, b |-> 0, c |-> 0, two |-> TRUE]
  ELSE IF R < 3600 THEN [form |-> "ms", a |-> R \div 60, b |-> R % 60, c |-> 0, two |-> TRUE]
  ELSE [form |-> "hms", a |-> (R \div 60) \div 60, b |-> (R \div 60) % 60, c |-> R % 60, two |-> TRUE]
=============================================================================
