----------------------------- MODULE TextTrace -----------------------------
(* Code -> spec for C20: recorded xml_escape outputs (with what a real XML     *)
(* parser read back in three contexts) and lexed format_hms outputs, judged by *)
(* TextOps.  Characters outside the escaping alphabet arrive as opaque tokens. *)
EXTENDS TextOps, Json, IOUtils, TLC
Trace == ndJsonDeserialize(IOEnv.TRACE_FILE)
VARIABLES i, verdict
Sq(x) == [k \in 1..Len(x) |-> x[k]]
Judge(e) ==
  IF e.k = "esc" THEN
     LET j == JudgeEscape(Sq(e.s), Sq(e.o)) IN
     IF j # "ok" THEN j
     ELSE IF e.perr THEN "escape.parser_rejects_output"
     ELSE IF Sq(e.pe) # Sq(e.s) THEN "escape.parsed_element_content"
     ELSE IF Sq(e.pd) # Sq(e.s) THEN "escape.parsed_double_quoted_attribute"
     ELSE IF Sq(e.ps) # Sq(e.s) THEN "escape.parsed_single_quoted_attribute"
     ELSE "ok"
  ELSE IF e.k = "dur" THEN
     LET j == IF "us" \in DOMAIN e THEN JudgeDurationUs(e.sec, e.us, e.p) ELSE JudgeDuration(e.sec, e.ms, e.p) IN
     IF j # "ok" THEN j ELSE IF ~e.same THEN "hms.milliseconds_equal_seconds" ELSE "ok"
  ELSE "badevent"
TInit == i = 0 /\ verdict = "init"
TNext == i < Len(Trace) /\ i' = i + 1 /\ verdict' = Judge(Trace[i + 1])
TSpec == TInit /\ [][TNext]_<<i, verdict>>
=============================================================================
