-------------------------------- MODULE Units --------------------------------
(* C12 - length parsing and unit conversion (plot_utils.parseLengthWithUnits,  *)
(* unitsToUserUnits, userUnitToUnits, getLength, getLengthInches).             *)
(* A numeral is (sign, integer part, fraction n/10^k, decimal exponent) with    *)
(* an exact rational value; the harness renders it to text in several           *)
(* spellings.  One abstract factor table (SVG/CSS absolute units at 96 px/in);  *)
(* the four tables of the code are impl-shaped operators.                       *)
EXTENDS Rat, Sequences, TLC
CONSTANTS IntParts, Fracs, Exps, Refs
Units == {"", "px", "in", "mm", "cm", "pt", "pc", "Q", "%"}
\* unsupported units, among them ones spelt with the letters of a supported suffix (a suffix is removed once, not as a set of characters)
Unsupported == {"em", "ex", "rem", "vw", "m", "mmm", "nin", "xpx", "mcm", "tpt", "cpc", "QQ", "%%", "pxpx"}
\* malformed texts (no numeric part / not a numeral); the harness holds the literal strings under these names
Malformed == {"empty", "blank", "bare_unit_mm", "bare_px", "bare_percent", "word", "two_dots", "double_sign", "dangling_exponent",
              "exponent_only", "lone_dot", "lone_sign", "two_numbers", "decimal_comma", "nan", "inf", "neg_infinity", "nan_mm", "inf_px"}

Pow10(k) == 10 ^ k
Value(neg, ip, fr, ex) ==
  LET m == RAdd(RI(ip), R(fr[1], fr[2]))
      s == IF ex >= 0 THEN RMul(m, RI(Pow10(ex))) ELSE RDiv(m, RI(Pow10(0 - ex))) IN
  IF neg THEN RNeg(s) ELSE s

(* ---------------- Abstract: px per unit ---------------- *)
Factor(u) ==
  CASE u \in {"", "px"} -> RI(1)
    [] u = "in" -> RI(96)
    [] u = "mm" -> R(480, 127)          \* 96 / 25.4
    [] u = "cm" -> R(4800, 127)
    [] u = "pt" -> R(4, 3)              \* 96 / 72
    [] u = "pc" -> RI(16)
    [] u = "Q"  -> R(120, 127)          \* 96 / 101.6
ParsedUnit(u) == IF u = "" THEN {"px", ""} ELSE {u}        \* no suffix means pixels
ToUser(v, u, ref) == IF u = "%" THEN RDiv(RMul(v, RI(ref)), RI(100)) ELSE RMul(v, Factor(u))
ToInches(v, u) == RDiv(RMul(v, Factor(u)), RI(96))        \* u # "%"

(* ---------------- Impl-shaped: the four tables of the code, as divisors of 96 ---------------- *)
\* getLength / unitsToUserUnits : value * 96 / d ; getLengthInches : value / d ; userUnitToUnits : value / (96 / d)
DivGetLength(u) == CASE u = "in" -> RI(1) [] u = "mm" -> R(254, 10) [] u = "cm" -> R(254, 100) [] u = "Q" -> RMul(RI(40), R(254, 100))
                     [] u = "pc" -> RI(6) [] u = "pt" -> RI(72) [] OTHER -> RI(96)
DivToUser(u)    == CASE u = "in" -> RI(1) [] u = "mm" -> R(254, 10) [] u = "cm" -> R(254, 100) [] u = "Q" -> R(1016, 10)
                     [] u = "pc" -> RI(6) [] u = "pt" -> RI(72) [] OTHER -> RI(96)
TablesAgree == \A u \in Units \ {"%"} :
   /\ REq(RDiv(RI(96), DivGetLength(u)), Factor(u))
   /\ REq(RDiv(RI(96), DivToUser(u)), Factor(u))

VARIABLES num, unit, ref, kind, exp
vars == <<num, unit, ref, kind, exp>>
Init ==
  /\ \/ /\ kind = "ok"
        /\ num \in {<<neg, ip, fr, ex>> : neg \in BOOLEAN, ip \in IntParts, fr \in Fracs, ex \in Exps}
        /\ unit \in Units /\ ref \in Refs
     \/ /\ kind = "ok"           \* very small values (1e-7, 3e-7): a conversion that keeps six decimals loses them
        /\ num \in {<<neg, ip, <<0, 1>>, -7>> : neg \in BOOLEAN, ip \in {1, 3}}
        /\ unit \in Units /\ ref \in Refs
     \/ /\ kind = "unsupported_unit"
        /\ num \in {<<FALSE, ip, <<0, 1>>, 0>> : ip \in IntParts}
        /\ unit \in Unsupported /\ ref \in Refs
     \/ /\ kind \in Malformed /\ num = <<FALSE, 0, <<0, 1>>, 0>> /\ unit = "" /\ ref \in Refs
  /\ exp = IF kind # "ok" THEN [none |-> TRUE]
           ELSE LET v == Value(num[1], num[2], num[3], num[4]) IN
                [none |-> FALSE, value |-> v, units |-> ParsedUnit(unit),
                 user |-> ToUser(v, unit, ref),
                 inches |-> IF unit = "%" THEN <<0, 0>> ELSE ToInches(v, unit)]      \* <<0,0>> : no value (None)
Next == FALSE /\ UNCHANGED vars
Spec == Init /\ [][Next]_vars
RoundTripExact == (kind = "ok" /\ unit # "%") =>
   REq(RDiv(exp.user, Factor(unit)), Value(num[1], num[2], num[3], num[4]))
InchesTimes96 == (kind = "ok" /\ unit # "%") => REq(RMul(exp.inches, RI(96)), exp.user)
TablesOK == TablesAgree
=============================================================================
