SPECIFICATION Spec
CONSTANTS
  IntParts = {0, 1, 12, 254}
  Fracs <- FracsQ
  Exps <- ExpsQ
  Refs = {0, 50, 816}
INVARIANT RoundTripExact
INVARIANT InchesTimes96
INVARIANT TablesOK
CHECK_DEADLOCK FALSE
