SPECIFICATION Spec
CONSTANTS
  IntParts = {0, 1, 7, 12, 96, 254}
  Fracs <- FracsT
  Exps <- ExpsT
  Refs = {0, 1, 50, 816}
INVARIANT RoundTripExact
INVARIANT InchesTimes96
INVARIANT TablesOK
CHECK_DEADLOCK FALSE
