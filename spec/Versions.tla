------------------------------ MODULE Versions ------------------------------
(* C15 - firmware version order and the legacy feature gates.                 *)
(* Versions are triples of naturals ordered component by component            *)
(* (2.10.0 is newer than 2.9.9); the harness renders "a.b.c" inside a          *)
(* realistic identification line.                                              *)
EXTENDS Integers, Sequences, TLC
CONSTANTS Comps          \* component values (single- and multi-digit)
VerGE(v, t) == v[1] > t[1] \/ (v[1] = t[1] /\ (v[2] > t[2] \/ (v[2] = t[2] /\ v[3] >= t[3])))
\* legacy features and the minimum firmware each needs; `sent` = the feature's own command goes on the wire
Gates == [servo_timeout |-> <<2, 6, 0>>, query_voltage |-> <<2, 2, 3>>, query_nickname |-> <<2, 5, 5>>,
          write_nickname |-> <<2, 5, 5>>, reboot |-> <<2, 5, 5>>]
GateCmd == [servo_timeout |-> "SR", query_voltage |-> "QC", query_nickname |-> "QT", write_nickname |-> "ST", reboot |-> "RB"]
VARIABLES kind, v, t, gate, exp
vars == <<kind, v, t, gate, exp>>
Triples == Comps \X Comps \X Comps
Near(th) == {<<th[1], th[2], th[3]>>, <<th[1], th[2], th[3] + 1>>, <<th[1], th[2] + 1, 0>>, <<th[1] + 1, 0, 0>>,
             <<th[1], th[2], 10>>, <<th[1], 10, 0>>, <<10, 0, 0>>}
            \cup (IF th[3] > 0 THEN {<<th[1], th[2], th[3] - 1>>} ELSE {})
            \cup (IF th[2] > 0 THEN {<<th[1], th[2] - 1, 9>>, <<th[1], th[2] - 1, 99>>} ELSE {})
            \cup {<<th[1] - 1, 9, 9>>, <<th[1] - 1, 99, 0>>, <<0, 0, 0>>}
Init == \/ /\ kind = "order" /\ v \in Triples /\ t \in Triples /\ gate = "" /\ exp = VerGE(v, t)
        \/ /\ kind = "gate" /\ gate \in DOMAIN Gates /\ t = Gates[gate] /\ v \in Near(Gates[gate]) /\ exp = VerGE(v, Gates[gate])
Next == FALSE /\ UNCHANGED vars
Spec == Init /\ [][Next]_vars
\* the order is a total order (checked on the enumerated pairs)
Total == (kind = "order") => (VerGE(v, t) \/ VerGE(t, v))
Antisym == (kind = "order" /\ VerGE(v, t) /\ VerGE(t, v)) => v = t
NumericNotTextual == (kind = "order" /\ v = <<2, 10, 0>> /\ t = <<2, 9, 9>>) => exp
=============================================================================
