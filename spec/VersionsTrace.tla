--------------------------- MODULE VersionsTrace ---------------------------
(* Code -> spec for single version vectors of C15 (used by the replay command): *)
(* one recorded answer of a min_version comparison, or of a legacy gate          *)
(* (was the feature's command sent?), judged by Versions!VerGE.                  *)
EXTENDS Integers, Sequences, Json, IOUtils, TLC
Trace == ndJsonDeserialize(IOEnv.TRACE_FILE)
VARIABLES i, verdict
VerGE(v, t) == v[1] > t[1] \/ (v[1] = t[1] /\ (v[2] > t[2] \/ (v[2] = t[2] /\ v[3] >= t[3])))
Judge(e) == IF e.got = VerGE(e.v, e.t) /\ ~e.extra THEN "ok" ELSE e.clause
TInit == i = 0 /\ verdict = "init"
TNext == i < Len(Trace) /\ i' = i + 1 /\ verdict' = Judge(Trace[i + 1])
TSpec == TInit /\ [][TNext]_<<i, verdict>>
=============================================================================
