SPECIFICATION Spec
CONSTANTS
  Comps = {0, 2, 9, 10}
INVARIANT Total
INVARIANT Antisym
INVARIANT NumericNotTextual
CHECK_DEADLOCK FALSE
