SPECIFICATION Spec
CONSTANTS
  Comps = {0, 2, 3, 9, 10, 11}
INVARIANT Total
INVARIANT Antisym
INVARIANT NumericNotTextual
CHECK_DEADLOCK FALSE
