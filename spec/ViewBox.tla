------------------------------ MODULE ViewBox ------------------------------
(* E1/G machine for C11: every instance of the universe with its abstract    *)
(* answer and the impl-shaped answer (no transitions: one state per vector).  *)
EXTENDS ViewBoxOps
CONSTANTS Mins, Sizes, DocSizes        \* viewBox min-x/min-y ; viewBox w/h ; document W/H   (sets of integers)
VARIABLES vb, al, mos, kind, exp, impl
vars == <<vb, al, mos, kind, exp, impl>>      \* vb = <<minx, miny, w, h, W, H>>
Init ==
  /\ vb \in {<<mx, my, w, h, W, H>> : mx \in Mins, my \in Mins, w \in Sizes, h \in Sizes, W \in DocSizes, H \in DocSizes}
  /\ al \in Aligns /\ mos \in MoS /\ kind \in VBKinds
  \* malformed kinds: the guards come before the aspect-ratio rules, whatever those say - default, none, and a slice alignment
  /\ (kind # "ok" => (<<al, mos>> \in {<< <<1, 1>>, "absent">>, <<NoneAlign, "absent">>, <<NoneAlign, "slice">>, << <<0, 2>>, "slice">>} /\ vb[1] = vb[2]))
  /\ exp = IF kind = "ok" THEN Expected(vb[1], vb[2], vb[3], vb[4], vb[5], vb[6], al, mos) ELSE Identity
  /\ impl = Impl(vb[1], vb[2], vb[3], vb[4], vb[5], vb[6], al, mos)
Next == FALSE /\ UNCHANGED vars
Spec == Init /\ [][Next]_vars

BranchesRefineSVG == (kind = "ok") =>
  LET l == Landing(impl, vb[1], vb[2]) IN
  /\ REq(impl.sx, exp.sx) /\ REq(impl.sy, exp.sy) /\ REq(l[1], exp.tx) /\ REq(l[2], exp.ty)
\* consequences named by the statement
UniformUnlessNone == (kind = "ok" /\ al # NoneAlign) => REq(exp.sx, exp.sy)
MeetFits == (kind = "ok" /\ al # NoneAlign /\ mos # "slice") =>
  (RLe(RMul(RI(vb[3]), exp.sx), RI(vb[5])) /\ RLe(RMul(RI(vb[4]), exp.sy), RI(vb[6])))
SliceCovers == (kind = "ok" /\ al # NoneAlign /\ mos = "slice") =>
  (RLe(RI(vb[5]), RMul(RI(vb[3]), exp.sx)) /\ RLe(RI(vb[6]), RMul(RI(vb[4]), exp.sy)))
=============================================================================
