----------------------------- MODULE ViewBoxInd -----------------------------
(* E2 (Apalache) for C11: the branch choice of vb_scale picks the SVG scale for *)
(* ALL positive integer sizes.  Rationals are cross-multiplied away:            *)
(*   ratio_x = W/w, ratio_y = H/h ;  ratio_x <= ratio_y  <=>  W*h <= H*w        *)
(* The code takes branch "fill X" (scale = ratio_x) iff                          *)
(*   (H/W >= h/w and meet) or (H/W < h/w and slice)                              *)
(* SVG: scale = min(ratio_x, ratio_y) for meet, max for slice.                   *)
(*   apalache-mc check --init=Init --inv=BranchPicksSVGScale --length=0          *)
EXTENDS Integers
VARIABLES
  \* @type: Int;
  w,
  \* @type: Int;
  h,
  \* @type: Int;
  ww,
  \* @type: Int;
  hh,
  \* @type: Bool;
  meet
Init == /\ w \in Int /\ h \in Int /\ ww \in Int /\ hh \in Int /\ meet \in BOOLEAN
        /\ w > 0 /\ h > 0 /\ ww > 0 /\ hh > 0
Next == UNCHANGED <<w, h, ww, hh, meet>>
\* ar_doc >= ar_vb  <=>  hh/ww >= h/w  <=>  hh*w >= h*ww
FillX == (hh * w >= h * ww /\ meet) \/ (hh * w < h * ww /\ ~meet)
\* ratio_x <= ratio_y  <=>  ww*h <= hh*w
XIsMin == ww * h <= hh * w
XIsMax == ww * h >= hh * w
BranchPicksSVGScale ==
  /\ (FillX /\ meet => XIsMin) /\ (FillX /\ ~meet => XIsMax)
  /\ (~FillX /\ meet => ~XIsMin \/ ww * h = hh * w) /\ (~FillX /\ ~meet => ~XIsMax \/ ww * h = hh * w)
=============================================================================
