------------------------------ MODULE ViewBoxOps ----------------------------
(* C11 - plot_utils.vb_scale against SVG 1.1 preserveAspectRatio.             *)
(* Abstract: where the viewBox rectangle lands on the page.  The code returns *)
(* (sx, sy, ox, oy) for the map  x |-> (x + ox) * sx ; any pair producing the  *)
(* same map is right, so the statement is phrased as: scale, and the page      *)
(* position of the viewBox's min corner.  Exact rationals.                     *)
(* Impl: the code's two-branch "fill X / fill Y" formulation.                  *)
EXTENDS Rat, Sequences, TLC
NoneAlign == <<9, 9>>                  \* preserveAspectRatio="none" (TLC cannot compare a string with a pair)
Aligns == {NoneAlign} \cup {<<ax, ay>> : ax \in 0..2, ay \in 0..2}     \* 0 = min, 1 = mid, 2 = max
MoS == {"meet", "slice", "absent"}
\* what the attribute text looks like (rendered to strings by the harness)
VBKinds == {"ok", "none", "three_numbers", "empty", "non_numeric", "zero_width", "zero_height", "negative_width", "negative_height", "negative_both",
            "zero_doc_width", "zero_doc_height", "negative_doc_width", "negative_doc_height", "negative_doc_both"}

Identity == [sx |-> RI(1), sy |-> RI(1), tx |-> RI(0), ty |-> RI(0), ident |-> TRUE]
Frac(a) == R(a, 2)
(* ---------------- Abstract (SVG 1.1, 7.8) ---------------- *)
Expected(minx, miny, w, h, W, H, a, m) ==
  IF a = NoneAlign THEN [sx |-> R(W, w), sy |-> R(H, h), tx |-> RI(0), ty |-> RI(0), ident |-> FALSE]
  ELSE LET rx == R(W, w) ry == R(H, h)
           s == IF m = "slice" THEN RMax(rx, ry) ELSE RMin(rx, ry) IN        \* absent = meet
       [sx |-> s, sy |-> s,
        tx |-> RMul(RSub(RI(W), RMul(RI(w), s)), Frac(a[1])),
        ty |-> RMul(RSub(RI(H), RMul(RI(h), s)), Frac(a[2])), ident |-> FALSE]
(* ---------------- Impl-shaped ---------------- *)
Impl(minx, miny, w, h, W, H, a, m) ==
  IF a = NoneAlign THEN [sx |-> R(W, w), sy |-> R(H, h), ox |-> RI(0 - minx), oy |-> RI(0 - miny)]
  ELSE LET ardoc == R(H, W) arvb == R(h, w) meet == m # "slice" IN
       IF (RLe(arvb, ardoc) /\ meet) \/ (RLt(ardoc, arvb) /\ ~meet)
       THEN LET s == R(W, w)
                excess == RSub(RMul(ardoc, RI(w)), RI(h)) IN
            [sx |-> s, sy |-> s, ox |-> RI(0 - minx), oy |-> RAdd(RI(0 - miny), RMul(excess, Frac(a[2])))]
       ELSE LET s == R(H, h)
                excess == RSub(RDiv(RI(h), ardoc), RI(w)) IN
            [sx |-> s, sy |-> s, oy |-> RI(0 - miny), ox |-> RAdd(RI(0 - minx), RMul(excess, Frac(a[1])))]
\* the page position of the viewBox min corner under the code's map
Landing(r, minx, miny) == <<RMul(RAdd(RI(minx), r.ox), r.sx), RMul(RAdd(RI(miny), r.oy), r.sy)>>

=============================================================================
