---------------------------- MODULE ViewBoxTrace ----------------------------
(* V direction for C11: TLC computes the abstract landing (scale + page       *)
(* position of the viewBox min corner) for each recorded call; the harness     *)
(* compares the recorded floats with those exact rationals.                    *)
EXTENDS ViewBoxOps, Json, IOUtils
Trace == ndJsonDeserialize(IOEnv.TRACE_FILE)
VARIABLES i, verdict
Al(e) == IF e.ax = 9 THEN NoneAlign ELSE <<e.ax, e.ay>>
Judge(e) ==
  IF e.w <= 0 \/ e.h <= 0 \/ e.W <= 0 \/ e.H <= 0 \/ e.kind # "ok" THEN Identity
  ELSE Expected(e.minx, e.miny, e.w, e.h, e.W, e.H, Al(e), e.mos)
TInit == i = 0 /\ verdict = Identity
TNext == i < Len(Trace) /\ i' = i + 1 /\ verdict' = Judge(Trace[i + 1])
TSpec == TInit /\ [][TNext]_<<i, verdict>>
=============================================================================
