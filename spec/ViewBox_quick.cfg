SPECIFICATION Spec
CONSTANTS
  Mins <- MinsQ
  Sizes = {1, 2, 4}
  DocSizes = {1, 2, 3, 8}
INVARIANT BranchesRefineSVG
INVARIANT UniformUnlessNone
INVARIANT MeetFits
INVARIANT SliceCovers
CHECK_DEADLOCK FALSE
