SPECIFICATION Spec
CONSTANTS
  Mins <- MinsT
  Sizes = {1, 2, 3, 4, 10}
  DocSizes = {1, 2, 3, 5, 8, 20}
INVARIANT BranchesRefineSVG
INVARIANT UniformUnlessNone
INVARIANT MeetFits
INVARIANT SliceCovers
CHECK_DEADLOCK FALSE
