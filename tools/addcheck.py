#!/venv/bin/python
"""addcheck.py <ID> <technique> <text> <note> - register/replace a check in tools/manifest_src.json and regenerate MANIFEST.json"""
import json, os, subprocess, sys
ROOT = os.path.dirname(os.path.dirname(os.path.abspath(__file__)))
p = os.path.join(ROOT, "tools", "manifest_src.json")
src = json.load(open(p))
pid, tech, text, note = sys.argv[1:5]
src["checks"][pid] = {"technique": tech, "text": text, "note": note}
json.dump(src, open(p, "w"), indent=1)
subprocess.run([os.path.join(ROOT, "tools", "gen_manifest.py")], check=True)
