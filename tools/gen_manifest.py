#!/venv/bin/python
"""Regenerate MANIFEST.json from tools/manifest_src.json (checks that exist) and properties.jsonl."""
import json, os
ROOT = os.path.dirname(os.path.dirname(os.path.abspath(__file__)))
src = json.load(open(os.path.join(ROOT, "tools", "manifest_src.json")))
props = [json.loads(l) for l in open(os.path.join(ROOT, "properties.jsonl"))]
checks, na = [], []
for p in props:
    pid = p["id"]
    c = src["checks"].get(pid)
    if c and os.path.exists(os.path.join(ROOT, "harness", pid.lower() + ".py")):
        checks.append({
            "property_id": pid,
            "quick_cmd": "./check %s --tier quick" % pid,
            "thorough_cmd": "./check %s --tier thorough" % pid,
            "evidence_file": "/verif/evidence/%s.json" % pid,
            "replay_cmd_template": "./check %s --replay {path}" % pid,
            "engine": c.get("engine", "tlc+conformance"),
            "level_claimed": {"category": "model_checking", "text": c["text"], "design_ref": c.get("design_ref", "DESIGN.md section 4, " + pid)},
            "level_note": c["note"],
            "technique": c["technique"],
        })
    else:
        na.append({"property_id": pid, "reason": src["not_applicable"].get(pid, "check not built yet in this session; the TLA+ design for it is in DESIGN.md section 4")})
m = {"version": 1, "setup_cmd": src["setup_cmd"], "hooks": src["hooks"], "engines": src["engines"], "checks": checks,
     "notes": src["notes"], "not_applicable": na}
json.dump(m, open(os.path.join(ROOT, "MANIFEST.json"), "w"), indent=1)
print("checks:", [c["property_id"] for c in checks], "n/a:", [n["property_id"] for n in na])
