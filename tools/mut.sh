#!/bin/bash
# ad-hoc mutation probe: tools/mut.sh <ID> <file-in-repo> <python-expr old> <new>  -> runs quick check against a scratch copy
ID=$1; F=$2; OLD=$3; NEW=$4
D=/tmp/mut_$$; rm -rf $D; mkdir -p $D; cp -r /repo/plotink /repo/setup.py $D/ 2>/dev/null
python3 - "$D/$F" "$OLD" "$NEW" <<'P'
import sys
p,o,n=sys.argv[1:4]; s=open(p).read()
assert s.count(o)>=1, "pattern not found"
open(p,'w').write(s.replace(o,n,1))
P
[ $? -eq 0 ] || { rm -rf $D; exit 9; }
VERIF_REPO=$D VERIF_OUT=$D/out VERIF_EVIDENCE_DIR=$D/ev timeout 1200 ./check $ID --tier quick 2>&1 | grep -E "^(PASS|FAIL|VIOLATION|KNOWN|MACHINERY)" | cut -c1-220 | head -6
rm -rf $D
