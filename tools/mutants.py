#!/venv/bin/python
"""mutants.py <ID> [--max N] [--jobs J] [--seed S] - systematic single-token mutants of the code behind property <ID>.

For every mutant (one operator / constant / keyword changed on one line of the functions the property is anchored in):
  1. it must still compile and pass the repository's 33 tests (otherwise it is not a change the tests leave for us),
  2. the property's quick check is run against a scratch copy with the mutant applied.
Result per mutant: tests_kill | check_kill (with the first clause) | survived.  Survivors are either equivalent mutants or gaps of the
check; they are listed in /verif/out/mutants/<ID>.json for inspection.  /repo itself is never modified."""
import ast, json, os, random, re, shutil, subprocess, sys, tempfile
from concurrent.futures import ThreadPoolExecutor

REPO = "/repo"
TARGETS = {
    "C01": [("plotink/ebb_calc.py", ["move_dist_lt"]), ("plotink/ebb_motion.py", ["moveDistLM", "moveDistLMA"])],
    "C02": [("plotink/ebb_calc.py", ["move_dist_t3", "rate_t3"])],
    "C03": [("plotink/ebb_calc.py", ["calculate_lm"]), ("plotink/ebb_motion.py", ["moveTimeLM"])],
    "C17": [("plotink/ebb_calc.py", ["max_rate_t3", "rate_t3"])],
    "C06": [("plotink/ebb_motion.py", None), ("plotink/ebb3_motion.py", None)],
    "C07": [("plotink/ebb_serial.py", ["query", "command"])],
    "C08": [("plotink/plot_utils.py", ["clip_segment", "clip_code"])],
    "C09": [("plotink/plot_utils.py", ["supersample", "points_in_tolerance", "max_dist_from_n_points"])],
    "C10": [("plotink/plot_utils.py", ["subdivideCubicPath", "points_in_tolerance"])],
    "C11": [("plotink/plot_utils.py", ["vb_scale"])],
    "C12": [("plotink/plot_utils.py", ["parseLengthWithUnits", "unitsToUserUnits", "userUnitToUnits", "getLength", "getLengthInches"])],
    "C13": [("plotink/spatial_grid.py", None)],
    "C14": [("plotink/rtree.py", None)],
    "C18": [("plotink/plot_utils.py", ["checkLimits", "checkLimitsTol", "constrainLimits", "point_in_bounds"])],
    "C19": [("plotink/ebb_serial.py", ["findPort", "find_named_ebb", "listEBBports", "list_named_ebbs"]),
            ("plotink/ebb3_serial.py", ["find_first", "list_ebb_ports", "list_named_ebbs", "find_named"])],
    "C20": [("plotink/text_utils.py", None)],
    "C04": [("plotink/ebb3_serial.py", None), ("plotink/ebb3_motion.py", None)],
    "C05": [("plotink/ebb3_serial.py", ["command", "query", "query_statusbyte", "reboot", "bootload", "record_error", "var_write", "var_read",
                                        "var_write_int32", "var_read_int32", "write_nickname", "query_nickname"]),
            ("plotink/ebb3_motion.py", ["query_steps", "dio_b_read", "query_voltage", "query_current", "motors_query_enabled"])],
    "C15": [("plotink/ebb3_serial.py", ["connect", "min_version", "parse_version", "disconnect", "_get_port_name"]),
            ("plotink/ebb_serial.py", ["min_version", "queryVersion"]), ("plotink/ebb_motion.py", ["servo_timeout", "queryVoltage"])],
    "C16": [("plotink/ebb3_serial.py", ["var_write_int32", "var_read_int32", "write_nickname", "query_nickname"]),
            ("plotink/ebb3_motion.py", ["motors_enable", "motors_query_enabled"])],
}
SWAPS = [(r"<=", "<"), (r">=", ">"), (r"(?<![<>=!])<(?![=<])", "<="), (r"(?<![<>=!-])>(?![=>])", ">="), (r"==", "!="), (r"!=", "=="),
         (r" \+ ", " - "), (r" - ", " + "), (r" \* ", " / "), (r" / ", " * "), (r" // ", " / "), (r"\band\b", "or"), (r"\bor\b", "and"),
         (r"\bnot ", ""), (r"\bTrue\b", "False"), (r"\bFalse\b", "True"), (r"\bis None\b", "is not None"), (r"\bis not None\b", "is None"),
         (r"\bmin\(", "max("), (r"\bmax\(", "min("), (r"\.lower\(\)", ""), (r"\.strip\(\)", ""), (r"\[0\]", "[1]"), (r"\[1\]", "[0]"),
         (r"\bceil\(", "floor("), (r"\bfloor\(", "ceil("), (r"\babs\(", "("), (r"\bbreak\b", "continue"), (r"\bcontinue\b", "break"),
         (r"\+= ", "-= "), (r"-= ", "+= "), (r"\bstartswith\(", "endswith("), (r"\bint\(", "float(")]


def func_ranges(path, names):
    src = open(os.path.join(REPO, path)).read()
    tree = ast.parse(src)
    out = []
    for node in ast.walk(tree):
        if isinstance(node, (ast.FunctionDef, ast.AsyncFunctionDef)) and (names is None or node.name in names):
            body_start = node.body[0].lineno
            if isinstance(node.body[0], ast.Expr) and isinstance(getattr(node.body[0], "value", None), ast.Constant) and isinstance(node.body[0].value.value, str):
                body_start = node.body[0].end_lineno + 1            # skip the docstring
            out.append((body_start, node.end_lineno))
    return out


def code_part(line):
    """the part of a line before a comment (strings are left alone: mutating message text is pointless but harmless)"""
    k = line.find("#")
    return (line, "") if k < 0 else (line[:k], line[k:])


def mutants_of(pid):
    muts = []
    for path, names in TARGETS[pid]:
        lines = open(os.path.join(REPO, path)).read().split("\n")
        for lo, hi in func_ranges(path, names):
            for ln in range(lo, hi + 1):
                code, com = code_part(lines[ln - 1])
                if not code.strip() or code.strip().startswith(("'''", '"""', "logger.", "print(")):
                    continue
                for pat, rep in SWAPS:
                    for m in re.finditer(pat, code):
                        new = code[:m.start()] + rep + code[m.end():]
                        muts.append({"file": path, "line": ln, "old": lines[ln - 1].strip(), "new": (new + com).strip(), "_full": new + com})
                for m in re.finditer(r"(?<![\w.])(\d+)(?![\w.])", code):          # integer constants: +1 / -1
                    v = int(m.group(1))
                    for nv in {v + 1, max(v - 1, 0)} - {v}:
                        new = code[:m.start()] + str(nv) + code[m.end():]
                        muts.append({"file": path, "line": ln, "old": lines[ln - 1].strip(), "new": (new + com).strip(), "_full": new + com})
    seen, uniq = set(), []
    for m in muts:
        k = (m["file"], m["line"], m["new"])
        if k not in seen and m["new"] != m["old"]:
            seen.add(k)
            uniq.append(m)
    return uniq


def run_one(pid, k, m):
    d = tempfile.mkdtemp(prefix="mut_%s_%d_" % (pid, k), dir="/tmp")
    try:
        for item in ("plotink", "test", "tests", "setup.py", "setup.cfg", "pyproject.toml", "README.md"):
            src = os.path.join(REPO, item)
            if os.path.isdir(src):
                shutil.copytree(src, os.path.join(d, item))
            elif os.path.exists(src):
                shutil.copy(src, d)
        p = os.path.join(d, m["file"])
        lines = open(p).read().split("\n")
        lines[m["line"] - 1] = m["_full"]
        open(p, "w").write("\n".join(lines))
        r = subprocess.run(["/venv/bin/python", "-m", "py_compile", p], capture_output=True)
        if r.returncode:
            return dict(m, status="does_not_compile")
        env = dict(os.environ, PYTHONPATH=d)
        try:
            r = subprocess.run(["/venv/bin/python", "-m", "pytest", "-q", "-x", "-p", "no:cacheprovider"], cwd=d, env=env, capture_output=True, text=True, timeout=90)
        except subprocess.TimeoutExpired:
            return dict(m, status="tests_kill", clause="(tests hang)")
        if r.returncode:
            return dict(m, status="tests_kill")
        env = dict(os.environ, VERIF_REPO=d, VERIF_OUT=os.path.join(d, "out"), VERIF_EVIDENCE_DIR=os.path.join(d, "ev"))
        try:
            r = subprocess.run(["/verif/check", pid, "--tier", "quick"], cwd="/verif", env=env, capture_output=True, text=True, timeout=int(os.environ.get("MUT_CHECK_TIMEOUT", "420")))
        except subprocess.TimeoutExpired:
            return dict(m, status="check_kill", clause="(check timed out)")
        out = r.stdout + r.stderr
        if r.returncode == 1:
            v = [l for l in out.split("\n") if l.startswith("VIOLATION")]
            clause = re.sub(r".*/v\d+_", "", v[0]).replace(".json", "") if v else "?"
            return dict(m, status="check_kill", clause=clause)
        if r.returncode == 0:
            return dict(m, status="survived")
        return dict(m, status="machinery", tail=out[-400:])
    finally:
        shutil.rmtree(d, ignore_errors=True)


def main():
    pid = sys.argv[1]
    mx = int(sys.argv[sys.argv.index("--max") + 1]) if "--max" in sys.argv else 10 ** 9
    jobs = int(sys.argv[sys.argv.index("--jobs") + 1]) if "--jobs" in sys.argv else 3
    seed = int(sys.argv[sys.argv.index("--seed") + 1]) if "--seed" in sys.argv else 0
    muts = mutants_of(pid)
    random.Random(seed).shuffle(muts)
    muts = muts[:mx]
    os.makedirs("/verif/out/mutants", exist_ok=True)
    res = []
    with ThreadPoolExecutor(max_workers=jobs) as ex:
        for r in ex.map(lambda km: run_one(pid, km[0], km[1]), enumerate(muts)):
            r.pop("_full", None)
            res.append(r)
            print(pid, r["status"], r.get("clause", ""), "%s:%d" % (r["file"], r["line"]), "|", r["old"][:70], "=>", r["new"][:70], flush=True)
    tally = {}
    for r in res:
        tally[r["status"]] = tally.get(r["status"], 0) + 1
    json.dump({"property": pid, "tally": tally, "survivors": [r for r in res if r["status"] == "survived"],
               "machinery": [r for r in res if r["status"] == "machinery"], "all": res}, open("/verif/out/mutants/%s.json" % pid, "w"), indent=1)
    print(pid, "TALLY", tally)


main()
