#!/bin/bash
# refactor_probe.sh <R-name> <base-commit> <check ids...> : apply seeded/refactors/<R>.diff to a scratch worktree of <base> and run the quick checks
cd /verif; r=$1; base=$2; shift 2; wt=/tmp/rf_$r
git -C /repo worktree remove --force $wt 2>/dev/null; git -C /repo worktree add --detach $wt $base -q || exit 2
(cd $wt && git apply /verif/seeded/refactors/$r.diff 2>/dev/null) || { echo "$r: diff does not apply"; git -C /repo worktree remove --force $wt; exit 2; }
(cd $wt && /venv/bin/python -m pytest -q -p no:cacheprovider 2>&1 | tail -1)
for c in "$@"; do echo "== $r $c"; VERIF_REPO=$wt VERIF_OUT=/tmp/rf_out_$r VERIF_EVIDENCE_DIR=/tmp/rf_ev_$r ./check $c --tier quick > /tmp/rf_log_$r.txt 2>&1
  grep -E "^(VIOLATION|MACHINERY)" /tmp/rf_log_$r.txt | cut -c1-220 | head -4; grep -cE "^DRIFT" /tmp/rf_log_$r.txt | sed 's/^/DRIFT lines: /'; grep -E "^(PASS|FAIL)" /tmp/rf_log_$r.txt | cut -c1-200
  [ -n "$KEEP" ] || rm -rf /tmp/rf_out_$r; done
git -C /repo worktree remove --force $wt; rm -rf /tmp/rf_ev_$r /tmp/rf_log_$r.txt
