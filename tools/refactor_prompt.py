#!/venv/bin/python
"""refactor_prompt.py <tag> <ID> [<ID>...] - prepare a scratch worktree /tmp/wt/RF<tag> of /repo HEAD and write INSTRUCTIONS.md for a
sub-agent that re-implements the modules behind the given properties WITHOUT breaking any of them (a false-alarm probe).
The agent gets the property texts only, nothing from /verif."""
import json, os, subprocess, sys
tag, pids = sys.argv[1], sys.argv[2:]
props = {json.loads(l)["id"]: json.loads(l) for l in open("/verif/properties.jsonl")}
wt, out = "/tmp/wt/RF%s" % tag, "/tmp/wt/RF%s.out" % tag
subprocess.run(["git", "-C", "/repo", "worktree", "remove", "--force", wt], capture_output=True)
subprocess.run(["git", "-C", "/repo", "worktree", "add", "--detach", wt, "HEAD"], check=True, capture_output=True)
os.makedirs(out, exist_ok=True)
ptxt = "\n\n".join("%s: %s\n%s\nQuantified over: %s\nFiles: %s" % (p, props[p]["title"], props[p]["statement"], props[p]["quantifier"]["text"],
                                                                  ", ".join(props[p]["anchors"]["files"])) for p in pids)
txt = """You are helping test a verification setup for false alarms. Work ONLY inside the scratch git worktree {wt} (a checkout of the Python library
"plotink", helpers for EiBotBoard pen plotters) and write your outputs to {out}/. Do not touch /repo or /verif and do not read anything under /verif.

The library is supposed to satisfy these properties:

{ptxt}

Your task: produce ONE substantial, realistic re-implementation / refactoring of the code behind these properties that keeps EVERY property above true
for every input, call sequence and fault placement, while changing as much as you reasonably can of what the properties leave free:
internal structure (helper functions, decorators, loops vs recursion, data structures), the order of internal steps where it cannot be observed through
the properties, which of several valid answers is returned where a property allows several (tie-breaking, rounding at exact halves, chunking), messages
and logging, types that the properties do not fix (e.g. list vs tuple results, int-valued floats where a value is what matters), use of further
standard attributes/methods of objects the code is handed (e.g. serial port flush()/reset_input_buffer(), ListPortInfo attributes), argument
normalisation that does not change the documented behaviour. Think like a maintainer modernising the code, not like someone hunting for loopholes:
every public function/method keeps its name, signature and documented behaviour.
The existing test suite must still pass unchanged: `cd {wt} && /venv/bin/python -m pytest -q -p no:cacheprovider` (33 tests).
Be careful to really keep the properties: read each statement closely (boundary cases, failure values, exactly-once clauses, ordering).

Write:
 - {out}/refactor.diff : `git -C {wt} diff` against the clean worktree (must apply with `git apply` from the worktree root),
 - {out}/notes.md : a list of what you changed and, for each property, one or two sentences on why it still holds; list separately every
   observable difference you introduced deliberately (and why the properties allow it).
Leave the worktree WITH your changes applied (do not restore it). Do not commit anything. Report briefly.
""".format(wt=wt, out=out, ptxt=ptxt)
open(out + "/INSTRUCTIONS.md", "w").write(txt)
print(out + "/INSTRUCTIONS.md")
