#!/bin/bash
# false-alarm probe: run each family's checks against the behaviour-preserving refactorings kept in seeded/refactors/
# (diffs apply to /repo at f9d933b; later fix commits touching the same lines may need `git apply -3`)
cd /verif
run() { r=$1; shift; wt=/tmp/rf_$r; git -C /repo worktree remove --force $wt 2>/dev/null; git -C /repo worktree add --detach $wt f9d933b -q || return
  (cd $wt && git apply /verif/seeded/refactors/$r.diff) || { echo "$r: diff does not apply"; git -C /repo worktree remove --force $wt; return; }
  for c in "$@"; do echo "== $r $c"; VERIF_REPO=$wt VERIF_OUT=/tmp/rf_out_$r VERIF_EVIDENCE_DIR=/tmp/rf_ev ./check $c --tier quick > /tmp/rf_log_$r.txt 2>&1; grep -E "^(VIOLATION|MACHINERY)" /tmp/rf_log_$r.txt | cut -c1-200 | head -3; grep -cE "^DRIFT" /tmp/rf_log_$r.txt | sed 's/^/DRIFT lines: /'; grep -E "^(PASS|FAIL)" /tmp/rf_log_$r.txt | cut -c1-200; rm -f /tmp/rf_log_$r.txt; done
  git -C /repo worktree remove --force $wt; rm -rf /tmp/rf_out_$r; }
run R2 C01 C02 C03 C17
run R3 C08 C09 C10 C11 C12 C18
run R4 C07 C13 C14 C19 C20
run R1 C04 C05 C06 C15 C16 C19
rm -rf /tmp/rf_ev; echo DONE
