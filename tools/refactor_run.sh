#!/bin/bash
# run the checks of each property family against a behaviour-preserving refactoring (false-alarm probe)
run() { wt=$1; shift; for c in "$@"; do echo "== $wt $c"; VERIF_REPO=$wt VERIF_OUT=/tmp/rf_out_$(basename $wt) VERIF_EVIDENCE_DIR=/tmp/rf_ev ./check $c --tier quick 2>&1 | grep -E "^(PASS|FAIL|VIOLATION|MACHINERY|DRIFT|KNOWN)" | cut -c1-260 | head -6; done; }
cd /verif
run /tmp/wt/R2 C01 C02 C03 C17
run /tmp/wt/R3 C08 C09 C10 C11 C12 C18
run /tmp/wt/R4 C07 C13 C14 C19 C20
run /tmp/wt/R1 C04 C05 C06 C15 C16 C19
echo DONE
