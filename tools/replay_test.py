#!/venv/bin/python
"""replay_test.py [seed names] - end-to-end test of the replay commands: for each seeded change run the owning check against it, then
replay its first violation file against the changed tree (must report the violation) and against /repo (must hold)."""
import glob, json, os, shutil, subprocess, sys

def sh(cmd, env=None, timeout=3000):
    e = dict(os.environ); e.update(env or {})
    p = subprocess.run(cmd, cwd="/verif", env=e, capture_output=True, text=True, timeout=timeout)
    return p.returncode, p.stdout + p.stderr

names = sys.argv[1:] or sorted({os.path.basename(p) for p in glob.glob("/verif/seeded/C*_1")})
res = {}
for name in names:
    meta = json.load(open("/verif/seeded/%s/meta.json" % name)); pid = meta["property"]
    wt = "/tmp/rt_" + name; out = "/tmp/rt_out_" + name
    sh(["git", "-C", "/repo", "worktree", "remove", "--force", wt]); shutil.rmtree(wt, ignore_errors=True)
    sh(["git", "-C", "/repo", "worktree", "add", "--detach", wt, "HEAD"])
    try:
        subprocess.run(["git", "apply", "/verif/seeded/%s/patch.diff" % name], cwd=wt, check=True)
        env = {"VERIF_REPO": wt, "VERIF_OUT": out, "VERIF_EVIDENCE_DIR": "/tmp/rt_ev"}
        rc, o = sh(["/verif/check", pid, "--tier", "quick"], env)
        v = [l for l in o.split("\n") if l.startswith("VIOLATION")]
        if not v:
            res[name] = "no violation (rc %d)" % rc; print(name, res[name]); continue
        path = v[0].split("replay=")[1]
        rc1, o1 = sh(["/verif/check", pid, "--replay", path], env)
        rc2, o2 = sh(["/verif/check", pid, "--replay", path], {"VERIF_OUT": out, "VERIF_EVIDENCE_DIR": "/tmp/rt_ev"})
        res[name] = {"replay_on_changed_tree_rc": rc1, "replay_on_repo_rc": rc2, "ok": rc1 == 1 and rc2 == 0}
        print(name, pid, res[name], "" if res[name]["ok"] else (o1[-300:] + " || " + o2[-300:]))
    finally:
        sh(["git", "-C", "/repo", "worktree", "remove", "--force", wt]); shutil.rmtree(wt, ignore_errors=True); shutil.rmtree(out, ignore_errors=True)
json.dump(res, open("/verif/out/replay_test.json", "w"), indent=1)
