#!/venv/bin/python
"""seed_import.py <ID> [<outdir>] - confirm a sub-agent's seeded change and keep it under /verif/seeded/.

For each patch<k>.diff in <outdir> (default /tmp/wt/<ID>.out): in a fresh scratch worktree of /repo
(under /tmp, removed afterwards) confirm that (1) the demo exits 0 on the clean tree, (2) the patch applies,
(3) the pinned test suite still passes with it, (4) the demo exits non-zero with it. Kept as
/verif/seeded/<ID>_<n>/ {patch.diff, demo.py, meta.json}.
"""
import glob, json, os, re, shutil, subprocess, sys

PY = "/venv/bin/python"

def sh(cmd, cwd=None, env=None, timeout=900):
    e = dict(os.environ); e.update(env or {})
    p = subprocess.run(cmd, cwd=cwd, env=e, capture_output=True, text=True, timeout=timeout)
    return p.returncode, (p.stdout + p.stderr)

def main():
    pid = sys.argv[1]
    outdir = sys.argv[2] if len(sys.argv) > 2 else "/tmp/wt/%s.out" % pid
    for patch in sorted(glob.glob(os.path.join(outdir, "patch*.diff"))):
        k = re.search(r"patch(\w*)\.diff", patch).group(1)
        demo = os.path.join(outdir, "demo%s.py" % k)
        meta = os.path.join(outdir, "meta%s.json" % k)
        wt = "/tmp/seedwt_%s_%s" % (pid, k)
        sh(["git", "-C", "/repo", "worktree", "remove", "--force", wt]); shutil.rmtree(wt, ignore_errors=True)
        rc, out = sh(["git", "-C", "/repo", "worktree", "add", "--detach", wt, "HEAD"])
        if rc: print("worktree failed", out); continue
        try:
            res = {}
            res["demo_clean_rc"], o0 = sh([PY, demo], env={"PYTHONPATH": wt}, cwd=outdir)
            rc, out = sh(["git", "apply", patch], cwd=wt)
            res["applies"] = rc == 0
            if rc: print(pid, k, "patch does not apply:", out); continue
            rc, out = sh([PY, "-m", "pytest", "-q", "-p", "no:cacheprovider", "-x"], cwd=wt)
            res["tests_rc"] = rc; res["tests_tail"] = out.strip().split("\n")[-1]
            res["demo_mut_rc"], o1 = sh([PY, demo], env={"PYTHONPATH": wt}, cwd=outdir)
            ok = res["demo_clean_rc"] == 0 and res["tests_rc"] == 0 and res["demo_mut_rc"] != 0
            print(pid, k, "CONFIRMED" if ok else "REJECTED", res)
            if ok:
                n = 1
                while os.path.exists("/verif/seeded/%s_%d" % (pid, n)): n += 1
                d = "/verif/seeded/%s_%d" % (pid, n)
                os.makedirs(d)
                shutil.copy(patch, d + "/patch.diff"); shutil.copy(demo, d + "/demo.py")
                m = json.load(open(meta)) if os.path.exists(meta) else {}
                m.update({"property": pid, "confirmed": res,
                          "ran": ["git apply patch.diff (scratch worktree of /repo HEAD)", "pytest (33 tests) -> pass",
                                  "demo.py on clean tree -> exit 0", "demo.py with change -> exit %d" % res["demo_mut_rc"]],
                          "base_commit": sh(["git", "-C", "/repo", "rev-parse", "HEAD"])[1].strip()})
                json.dump(m, open(d + "/meta.json", "w"), indent=1)
        finally:
            sh(["git", "-C", "/repo", "worktree", "remove", "--force", wt]); shutil.rmtree(wt, ignore_errors=True)

main()
