#!/venv/bin/python
"""seed_index.py - write /verif/seeded/INDEX.md: every kept seeded change, what it needs, and what the owning check reported for it
(from seeded/<name>/meta.json and seeded/RESULTS.json, which tools/seed_run.py maintains)."""
import glob, json, os, re
res = json.load(open("/verif/seeded/RESULTS.json"))
rows = []
for d in sorted(glob.glob("/verif/seeded/C*_*"), key=lambda p: (p.split("/")[-1].split("_")[0], int(p.split("_")[-1]))):
    n = os.path.basename(d)
    m = json.load(open(d + "/meta.json"))
    pid = m["property"]
    r = res.get(n, {}).get(pid, {})
    clause = ""
    for l in r.get("lines", []):
        mm = re.search(r"/v\d+_([A-Za-z_]+)\.json", l)
        if mm:
            clause = mm.group(1)
            break
    status = (m["status"] + " (see meta.json)") if m.get("status") else ("DETECTED" if r.get("detected") else ("not run" if not r else "MISSED"))
    cut = lambda s, k: (s or "").replace("\n", " ").replace("|", "/")[:k]
    rows.append("| %s | %s | %s | %s | %s |" % (n, cut(m.get("summary"), 230), cut(m.get("needs"), 200), status, clause))
open("/verif/seeded/INDEX.md", "w").write(
    "# Seeded changes (kept under /verif/seeded/<name>/: patch.diff, demo.py, meta.json)\n\n"
    "Each was produced by a sub-agent that saw only the property text and a scratch worktree, and confirmed by tools/seed_import.py "
    "(demo passes on the clean tree, patch applies, the 33 pinned tests pass with it, demo fails with it). "
    "`verdict` is what the owning property's **quick** check reported when run against a scratch worktree with the change applied "
    "(tools/seed_run.py); `clause` is the first clause that fired.\n\n"
    "| seed | change | needs | verdict | clause |\n|---|---|---|---|---|\n" + "\n".join(rows) + "\n\n%d seeds.\n" % len(rows))
print(len(rows), "seeds;", sum(1 for r in rows if "DETECTED" in r), "detected;", sum(1 for r in rows if "MISSED" in r), "missed")
