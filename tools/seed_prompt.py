#!/venv/bin/python
"""seed_prompt.py <ID> <tag> - prepare a scratch worktree /tmp/wt/<ID><tag> and write INSTRUCTIONS.md for a seeding sub-agent into
/tmp/wt/<ID><tag>.out/ (property text + the summaries of changes already kept for that property, nothing else from /verif)."""
import glob, json, os, subprocess, sys
pid, tag = sys.argv[1], sys.argv[2]
props = {json.loads(l)["id"]: json.loads(l) for l in open("/verif/properties.jsonl")}
p = props[pid]
wt, out = "/tmp/wt/%s%s" % (pid, tag), "/tmp/wt/%s%s.out" % (pid, tag)
subprocess.run(["git", "-C", "/repo", "worktree", "remove", "--force", wt], capture_output=True)
subprocess.run(["git", "-C", "/repo", "worktree", "add", "--detach", wt, "HEAD"], check=True, capture_output=True)
os.makedirs(out, exist_ok=True)
tried = []
for d in sorted(glob.glob("/verif/seeded/%s_*" % pid)):
    m = json.load(open(d + "/meta.json"))
    tried.append("- " + m.get("summary", "")[:400].replace("\n", " "))
txt = """You are helping test a verification setup by writing realistic *breaking changes* (mutations) to a small Python library.
Work ONLY inside the scratch git worktree {wt} (a checkout of the library "plotink", a helper library for EiBotBoard (EBB) pen plotters:
serial command wrappers, firmware step-accumulator motion math, SVG unit/viewbox utilities, small spatial indexes) and write your outputs to {out}/.
Do not touch /repo or /verif, and do not read anything under /verif.

The property the library is supposed to satisfy:

{pid}: {title}
{statement}
Quantified over: {quant}
Relevant source files: {files}

Changes that have ALREADY been tried for this property (produce changes of DIFFERENT kinds, in different code paths where possible):
{tried}

Your task: produce TWO different, independent changes to the library source (each a separate patch against the clean worktree) such that each:
 1. BREAKS the property above (for some inputs / call sequences / fault placements the behaviour is now something the property forbids),
 2. still imports, and still passes the existing test suite unchanged: `cd {wt} && /venv/bin/python -m pytest -q -p no:cacheprovider` (33 tests must pass),
 3. looks like a plausible edit a maintainer might make (a refactoring, an "optimisation", a tidy-up, a robustness tweak, an off-by-one or boundary slip), not sabotage,
 4. needs something SPECIFIC to manifest - a particular interleaving or multi-step sequence of calls, a fault at a particular point, an unusual input or boundary coincidence,
    or two cooperating sites that each look fine alone - NOT something ordinary use would expose at once. The two changes should be of different kinds.

For each change k in {{1,2}} write:
 - {out}/patch<k>.diff : `git diff` output against the clean worktree (must apply with `git apply` from the worktree root),
 - {out}/demo<k>.py : a small standalone program (run as `PYTHONPATH=<tree> /venv/bin/python demo<k>.py`, importing `plotink` from PYTHONPATH; use fake port objects
   with write()/readline()/close()/reset_input_buffer()/flushInput() where a serial port is needed - for the EBB3 classes create `obj = ebb3_motion.EBBMotionWrap(); obj.port = fake`
   instead of calling connect() unless your change is about connect) that exits 0 on the unmodified tree and non-zero with the change applied; compute expected values independently
   of the library where you can,
 - {out}/meta<k>.json : {{"summary": "<what the change does>", "needs": "<what specific condition is needed for it to manifest>", "files": ["..."]}}.

Procedure for each: make the edit in {wt}, run the test suite (must pass), run your demo with PYTHONPATH={wt} (must fail), save `git -C {wt} diff > patch<k>.diff`,
then `git -C {wt} checkout -- .` to restore the clean tree, and run the demo again (must pass, exit 0). Make sure that at the end the worktree is clean (git status shows no
modifications). Do not commit anything. Report briefly what you produced.
""".format(wt=wt, out=out, pid=pid, title=p["title"], statement=p["statement"], quant=p["quantifier"]["text"], files=", ".join(p["anchors"]["files"]),
           tried="\n".join(tried) or "- (none yet)")
open(out + "/INSTRUCTIONS.md", "w").write(txt)
print(out + "/INSTRUCTIONS.md")
