#!/venv/bin/python
"""seed_run.py [<seed dir names>...] - run the owning property's quick check against each kept seeded change.

Each change is applied to a scratch worktree of /repo HEAD under /tmp (removed afterwards) and the check is
pointed at it with VERIF_REPO, so /repo itself is never modified. Writes /verif/seeded/RESULTS.json.
"""
import json, os, shutil, subprocess, sys, glob, time

def sh(cmd, cwd=None, env=None, timeout=3000):
    e = dict(os.environ); e.update(env or {})
    p = subprocess.run(cmd, cwd=cwd, env=e, capture_output=True, text=True, timeout=timeout)
    return p.returncode, (p.stdout + p.stderr)

def main():
    names = sys.argv[1:] or sorted(os.path.basename(p) for p in glob.glob("/verif/seeded/C*_*"))
    tier = os.environ.get("SEED_TIER", "quick")
    rp = "/verif/seeded/RESULTS.json"
    results = json.load(open(rp)) if os.path.exists(rp) else {}
    for name in names:
        d = "/verif/seeded/" + name
        meta = json.load(open(d + "/meta.json"))
        pids = [meta["property"]] + meta.get("also_check", [])
        wt = "/tmp/seedrun_" + name
        sh(["git", "-C", "/repo", "worktree", "remove", "--force", wt]); shutil.rmtree(wt, ignore_errors=True)
        sh(["git", "-C", "/repo", "worktree", "add", "--detach", wt, "HEAD"])
        try:
            rc, out = sh(["git", "apply", d + "/patch.diff"], cwd=wt)
            if rc:
                results[name] = {"applies": False, "out": out[-300:]}; print(name, "PATCH DOES NOT APPLY"); continue
            for pid in pids:
                t0 = time.time()
                rc, out = sh(["/verif/check", pid, "--tier", tier], cwd="/verif", env={"VERIF_REPO": wt, "VERIF_EVIDENCE_DIR": "/tmp/seedrun_ev", "VERIF_OUT": "/tmp/seedrun_out_" + name})
                lines = [l for l in out.split("\n") if l.startswith(("VIOLATION", "PASS", "FAIL", "MACHINERY", "KNOWN"))]
                results.setdefault(name, {})[pid] = {"rc": rc, "detected": rc == 1, "wall_s": round(time.time() - t0, 1), "tier": tier,
                                                    "lines": lines[:4]}
                print(name, pid, "DETECTED" if rc == 1 else ("MISSED" if rc == 0 else "MACHINERY-ERROR"), "%.0fs" % (time.time() - t0), lines[:2])
        finally:
            sh(["git", "-C", "/repo", "worktree", "remove", "--force", wt]); shutil.rmtree(wt, ignore_errors=True)
            shutil.rmtree("/tmp/seedrun_out_" + name, ignore_errors=True)
        # several shards may run side by side: merge this seed's entry into whatever is on disk now
        try:
            disk = json.load(open(rp))
        except Exception:  # pylint: disable=broad-except
            disk = {}
        if name in results:
            disk[name] = results[name]
        tmp = rp + ".%d.tmp" % os.getpid()
        json.dump(disk, open(tmp, "w"), indent=1, sort_keys=True)
        os.replace(tmp, rp)

main()
