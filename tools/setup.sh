#!/bin/sh
# Offline setup: nothing to build (specs are interpreted by TLC, the harness is Python run by /venv).
# Sanity-check the tools the checks need.
set -e
cd "$(dirname "$0")/.."
mkdir -p out evidence
test -f /opt/veriftools/tla/tla2tools.jar && command -v java >/dev/null || { echo "TLC not available"; exit 1; }
/venv/bin/python -c "import mpmath, serial, lxml" || { echo "python deps missing"; exit 1; }
chmod +x check tools/*.py tools/*.sh 2>/dev/null || true
echo "setup ok"
